/* Independent readers for the three alignment file formats, written from the format
   descriptions (not from kalign's readers), plus the GCG checksum.  No kalign code. */
#ifndef ORACLE_FMT_H
#define ORACLE_FMT_H
#include <stdio.h>
#include <stdlib.h>
#include <string.h>
#include <ctype.h>

struct fp_aln {
        int n;
        char** name;
        char** row;             /* gapped rows as found in the file */
        /* diagnostics for the well-formedness rules */
        int max_line;           /* longest sequence segment on one line */
        int bad_wrap;           /* FASTA: a non-final line of a record not exactly 60 columns (or an empty/over-long final line) */
        int blocks;             /* Clustal/MSF: number of blocks */
        int bad_block;          /* a block that misses a sequence, has them out of order, unequal or >60 segment lengths */
        int header_ok;
        /* MSF header facts */
        int msf_len;            /* value after MSF: */
        char msf_type;          /* P or N */
        int msf_check;
        char msf_bang[8];       /* AA or NA from the !!xx_MULTIPLE_ALIGNMENT line */
        int* decl_len;          /* per-sequence Len: */
        int* decl_check;        /* per-sequence Check: */
        char err[200];
};

static void fp_free(struct fp_aln* a)
{
        int i;
        for(i = 0; i < a->n; i++){
                free(a->name[i]);
                free(a->row[i]);
        }
        free(a->name);
        free(a->row);
        free(a->decl_len);
        free(a->decl_check);
        memset(a, 0, sizeof *a);
}

static int fp_gcg_checksum(const char* s, int len)
{
        int i, chk = 0;
        for(i = 0; i < len; i++){
                chk = (chk + (i % 57 + 1) * toupper((unsigned char)s[i])) % 10000;
        }
        return chk;
}

static void fp_add_seq(struct fp_aln* a, const char* name, int namelen)
{
        a->name = realloc(a->name, sizeof(char*) * (a->n + 1));
        a->row = realloc(a->row, sizeof(char*) * (a->n + 1));
        a->name[a->n] = malloc(namelen + 1);
        memcpy(a->name[a->n], name, namelen);
        a->name[a->n][namelen] = 0;
        a->row[a->n] = calloc(1, 1);
        a->n++;
}

static void fp_append(char** row, const char* seg, int seglen)
{
        size_t l = strlen(*row);
        *row = realloc(*row, l + seglen + 1);
        memcpy(*row + l, seg, seglen);
        (*row)[l + seglen] = 0;
}

/* splits text into lines (modifies it); returns number of lines */
static int fp_lines(char* text, char*** out)
{
        int n = 0, cap = 64;
        char** L = malloc(sizeof(char*) * cap);
        char* p = text;
        while(*p){
                char* e = strchr(p, '\n');
                if(n == cap){
                        cap *= 2;
                        L = realloc(L, sizeof(char*) * cap);
                }
                L[n++] = p;
                if(!e){
                        break;
                }
                *e = 0;
                if(e > p && e[-1] == '\r'){
                        e[-1] = 0;
                }
                p = e + 1;
        }
        *out = L;
        return n;
}

static int fp_parse_fasta(const char* data, struct fp_aln* a)
{
        char* text = strdup(data);
        char** L;
        int nl, i;
        int cur_lines_last_len = -1;      /* length of the previous sequence line of the current record */
        memset(a, 0, sizeof *a);
        nl = fp_lines(text, &L);
        a->header_ok = (nl > 0 && L[0][0] == '>');
        for(i = 0; i < nl; i++){
                if(L[i][0] == '>'){
                        if(cur_lines_last_len == 0 || cur_lines_last_len > 60){
                                a->bad_wrap++;
                        }
                        fp_add_seq(a, L[i] + 1, (int)strlen(L[i] + 1));
                        cur_lines_last_len = -1;
                }else{
                        int l = (int)strlen(L[i]);
                        if(a->n == 0){
                                snprintf(a->err, sizeof a->err, "sequence data before first header");
                                free(L); free(text);
                                return -1;
                        }
                        if(cur_lines_last_len >= 0 && cur_lines_last_len != 60){
                                a->bad_wrap++;          /* a line that turned out not to be the last one is not 60 wide */
                        }
                        if(l > a->max_line){
                                a->max_line = l;
                        }
                        fp_append(&a->row[a->n - 1], L[i], l);
                        cur_lines_last_len = l;
                }
        }
        if(cur_lines_last_len == 0 || cur_lines_last_len > 60){
                a->bad_wrap++;
        }
        free(L);
        free(text);
        return 0;
}

/* Clustal-style and MSF bodies share the block structure: name, blanks, segment(s). */
static int fp_parse_blocks(char** L, int from, int nl, struct fp_aln* a, int names_known)
{
        int i = from;
        int in_block = 0;
        int idx = 0;
        int seglen0 = -1;
        for(; i <= nl; i++){
                const char* line = (i < nl) ? L[i] : "";
                int blank = 1;
                const char* p;
                for(p = line; *p; p++){
                        if(!isspace((unsigned char)*p)){
                                blank = 0;
                                break;
                        }
                }
                /* Clustal conservation lines start with blanks */
                if(!blank && isspace((unsigned char)line[0])){
                        blank = 1;
                }
                if(blank){
                        if(in_block){
                                if(idx != a->n){
                                        a->bad_block++;         /* block does not contain every sequence */
                                }
                                a->blocks++;
                        }
                        in_block = 0;
                        idx = 0;
                        seglen0 = -1;
                        continue;
                }
                {
                        const char* e = line;
                        char seg[4096];
                        int sl = 0;
                        int namelen;
                        while(*e && !isspace((unsigned char)*e)){
                                e++;
                        }
                        namelen = (int)(e - line);
                        for(p = e; *p; p++){
                                if(!isspace((unsigned char)*p) && sl < (int)sizeof seg - 1){
                                        seg[sl++] = *p;
                                }
                        }
                        seg[sl] = 0;
                        if(!in_block){
                                in_block = 1;
                        }
                        if(a->blocks == 0 && !names_known){
                                fp_add_seq(a, line, namelen);
                        }else{
                                if(idx >= a->n || (int)strlen(a->name[idx]) != namelen || strncmp(a->name[idx], line, namelen) != 0){
                                        a->bad_block++;         /* unknown sequence or wrong order */
                                        /* try to locate by name so that parsing can go on */
                                        int k, found = -1;
                                        for(k = 0; k < a->n; k++){
                                                if((int)strlen(a->name[k]) == namelen && strncmp(a->name[k], line, namelen) == 0){
                                                        found = k;
                                                        break;
                                                }
                                        }
                                        if(found < 0){
                                                snprintf(a->err, sizeof a->err, "block line with unknown name: %.60s", line);
                                                return -1;
                                        }
                                        idx = found;
                                }
                        }
                        if(sl > 60){
                                a->bad_block++;
                        }
                        if(sl > a->max_line){
                                a->max_line = sl;
                        }
                        if(seglen0 < 0){
                                seglen0 = sl;
                        }else if(sl != seglen0){
                                a->bad_block++;
                        }
                        fp_append(&a->row[idx], seg, sl);
                        idx++;
                }
        }
        return 0;
}

static int fp_parse_clustal(const char* data, struct fp_aln* a)
{
        char* text = strdup(data);
        char** L;
        int nl, r;
        memset(a, 0, sizeof *a);
        nl = fp_lines(text, &L);
        a->header_ok = (nl > 0 && (strncmp(L[0], "CLUSTAL", 7) == 0 || strstr(L[0], "multiple sequence alignment") != NULL));
        r = fp_parse_blocks(L, 1, nl, a, 0);
        free(L);
        free(text);
        return r;
}

static int fp_parse_msf(const char* data, struct fp_aln* a)
{
        char* text = strdup(data);
        char** L;
        int nl, i, r;
        int have_msf = 0, have_sep = 0;
        memset(a, 0, sizeof *a);
        a->msf_len = -1;
        a->msf_check = -1;
        nl = fp_lines(text, &L);
        for(i = 0; i < nl; i++){
                char* p;
                if(strncmp(L[i], "//", 2) == 0){
                        have_sep = 1;
                        i++;
                        break;
                }
                if(strncmp(L[i], "!!", 2) == 0 && strstr(L[i], "_MULTIPLE_ALIGNMENT")){
                        a->msf_bang[0] = L[i][2];
                        a->msf_bang[1] = L[i][3];
                        a->msf_bang[2] = 0;
                }
                if((p = strstr(L[i], "MSF:"))){
                        char* q;
                        have_msf = 1;
                        a->msf_len = atoi(p + 4);
                        if((q = strstr(p, "Type:"))){
                                q += 5;
                                while(*q == ' '){
                                        q++;
                                }
                                a->msf_type = *q;
                        }
                        if((q = strstr(p, "Check:"))){
                                a->msf_check = atoi(q + 6);
                        }
                }
                if((p = strstr(L[i], "Name:"))){
                        char* q;
                        char* e;
                        p += 5;
                        while(*p == ' '){
                                p++;
                        }
                        e = p;
                        while(*e && !isspace((unsigned char)*e)){
                                e++;
                        }
                        fp_add_seq(a, p, (int)(e - p));
                        a->decl_len = realloc(a->decl_len, sizeof(int) * a->n);
                        a->decl_check = realloc(a->decl_check, sizeof(int) * a->n);
                        a->decl_len[a->n - 1] = -1;
                        a->decl_check[a->n - 1] = -1;
                        if((q = strstr(e, "Len:"))){
                                a->decl_len[a->n - 1] = atoi(q + 4);
                        }
                        if((q = strstr(e, "Check:"))){
                                a->decl_check[a->n - 1] = atoi(q + 6);
                        }
                }
        }
        a->header_ok = have_msf && have_sep && a->n > 0;
        r = fp_parse_blocks(L, i, nl, a, 1);
        free(L);
        free(text);
        return r;
}
#endif
