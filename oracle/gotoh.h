/* Independent full-matrix three-state affine alignment, used as a *robust certificate* for C07.

   kalign's forward and backward passes charge the ends of gaps differently, so no single textbook
   convention reproduces its objective.  Two conventions bracket every evaluation it performs:
       S_hi: internal gap of length L costs gpo + (L-1) gpe, terminal gap L tgpe            (most generous)
       S_lo: internal gap of length L costs 2 gpo + (L-1) gpe, terminal gap L tgpe + gpo    (most severe)
   A case is certified when P = argmax S_lo has no adjacent opposite gaps and
       S_lo(P) - max over alignments A != P of S_hi(A)  >  delta.
   Then every alignment other than P is valued below P by kalign too, whatever mixture of the two
   conventions it applies, and it must return P.  No kalign code here. */
#ifndef ORACLE_GOTOH_H
#define ORACLE_GOTOH_H
#include <stdlib.h>
#include <string.h>
#include <math.h>
#include <float.h>

#define G_M 0   /* column: residue of a over residue of b */
#define G_X 1   /* column: residue of a over a gap */
#define G_Y 2   /* column: gap over residue of b */
#define G_LO 0
#define G_HI 1
#define G_NEG (-1e30)

struct g_ctx {
        int n, m;
        const unsigned char* a;         /* internal codes */
        const unsigned char* b;
        float** subm;
        double gpo, gpe, tgpe;
};

static double g_edge(const struct g_ctx* g, int conv, int pi, int pj, int ps, int s)
{
        int i = pi + (s != G_Y), j = pj + (s != G_X);
        int at_start = (pi == 0 && pj == 0);
        double sc = 0.0;
        if(!at_start && ps != G_M && s != ps){
                if(conv == G_LO){
                        sc -= g->gpo;   /* closing an internal gap, or the extra gpo of a leading terminal gap */
                }
        }
        if(s == G_M){
                sc += (double)g->subm[g->a[i - 1]][g->b[j - 1]];
        }else{
                int leading = (s == G_X) ? (j == 0) : (i == 0);
                int trailing = (s == G_X) ? (j == g->m) : (i == g->n);
                int opening = at_start || ps != s;
                if(leading || trailing){
                        sc -= g->tgpe;
                        if(conv == G_LO && opening && !leading){
                                sc -= g->gpo;
                        }
                }else{
                        sc -= opening ? g->gpo : g->gpe;
                }
        }
        return sc;
}

#define G_IDX(g, i, j, s) ((((size_t)(i)) * ((size_t)(g)->m + 1) + (size_t)(j)) * 3 + (size_t)(s))

/* forward: F[node] = best score of a path from the start to node (node = last column placed); start = (0,0,M) */
static double* g_forward(const struct g_ctx* g, int conv)
{
        size_t N = ((size_t)g->n + 1) * ((size_t)g->m + 1) * 3;
        double* F = malloc(sizeof(double) * N);
        int i, j, s, ps;
        for(size_t k = 0; k < N; k++){
                F[k] = G_NEG;
        }
        F[G_IDX(g, 0, 0, G_M)] = 0.0;
        for(i = 0; i <= g->n; i++){
                for(j = 0; j <= g->m; j++){
                        for(s = 0; s < 3; s++){
                                int pi = i - (s != G_Y), pj = j - (s != G_X);
                                double best = G_NEG;
                                if(i == 0 && j == 0){
                                        continue;
                                }
                                if(pi < 0 || pj < 0){
                                        continue;
                                }
                                for(ps = 0; ps < 3; ps++){
                                        double f = F[G_IDX(g, pi, pj, ps)];
                                        if(f > G_NEG / 2){
                                                double v = f + g_edge(g, conv, pi, pj, ps, s);
                                                if(v > best){
                                                        best = v;
                                                }
                                        }
                                }
                                F[G_IDX(g, i, j, s)] = best;
                        }
                }
        }
        return F;
}

/* backward: B[node] = best score of completing the alignment from node to the end (n,m,*) */
static double* g_backward(const struct g_ctx* g, int conv)
{
        size_t N = ((size_t)g->n + 1) * ((size_t)g->m + 1) * 3;
        double* B = malloc(sizeof(double) * N);
        int i, j, s, t;
        for(size_t k = 0; k < N; k++){
                B[k] = G_NEG;
        }
        for(s = 0; s < 3; s++){
                B[G_IDX(g, g->n, g->m, s)] = 0.0;
        }
        for(i = g->n; i >= 0; i--){
                for(j = g->m; j >= 0; j--){
                        if(i == g->n && j == g->m){
                                continue;
                        }
                        for(s = 0; s < 3; s++){
                                double best = G_NEG;
                                if((i == 0 && j == 0) && s != G_M){
                                        continue;
                                }
                                for(t = 0; t < 3; t++){
                                        int ni = i + (t != G_Y), nj = j + (t != G_X);
                                        if(ni > g->n || nj > g->m){
                                                continue;
                                        }
                                        if(B[G_IDX(g, ni, nj, t)] > G_NEG / 2){
                                                double v = g_edge(g, conv, i, j, s, t) + B[G_IDX(g, ni, nj, t)];
                                                if(v > best){
                                                        best = v;
                                                }
                                        }
                                }
                                B[G_IDX(g, i, j, s)] = best;
                        }
                }
        }
        return B;
}

struct g_cert {
        int certified;
        double s_lo;            /* S_lo(P) */
        double best_other_hi;   /* max S_hi over alignments != P */
        double margin;
        int ncol;
        unsigned char* cols;    /* P as a column-type string */
        int p_has_gap;
        int representable;
};

static void g_cert_free(struct g_cert* c)
{
        free(c->cols);
        c->cols = NULL;
}

static void g_certify(const struct g_ctx* g, double delta, struct g_cert* out)
{
        double* Flo = g_forward(g, G_LO);
        double* Fhi = g_forward(g, G_HI);
        double* Bhi = g_backward(g, G_HI);
        int n = g->n, m = g->m;
        int i, j, s, ps, k;
        unsigned char* onp;
        int* pnode_i;
        int* pnode_j;
        int* pnode_s;
        int np = 0;
        double best;
        memset(out, 0, sizeof *out);
        /* P = argmax S_lo, traced back */
        s = 0;
        best = G_NEG;
        for(k = 0; k < 3; k++){
                if(Flo[G_IDX(g, n, m, k)] > best){
                        best = Flo[G_IDX(g, n, m, k)];
                        s = k;
                }
        }
        out->s_lo = best;
        pnode_i = malloc(sizeof(int) * (size_t)(n + m + 2));
        pnode_j = malloc(sizeof(int) * (size_t)(n + m + 2));
        pnode_s = malloc(sizeof(int) * (size_t)(n + m + 2));
        i = n;
        j = m;
        while(i > 0 || j > 0){
                int pi = i - (s != G_Y), pj = j - (s != G_X);
                int bps = -1;
                double bv = G_NEG;
                pnode_i[np] = i;
                pnode_j[np] = j;
                pnode_s[np] = s;
                np++;
                for(ps = 0; ps < 3; ps++){
                        double f = Flo[G_IDX(g, pi, pj, ps)];
                        if(f > G_NEG / 2){
                                double v = f + g_edge(g, G_LO, pi, pj, ps, s);
                                if(v > bv){
                                        bv = v;
                                        bps = ps;
                                }
                        }
                }
                i = pi;
                j = pj;
                s = bps;
        }
        /* reverse into column string, mark nodes of P */
        out->ncol = np;
        out->cols = malloc((size_t)np + 1);
        onp = calloc(((size_t)n + 1) * ((size_t)m + 1) * 3, 1);
        out->representable = 1;
        for(k = 0; k < np; k++){
                int q = np - 1 - k;
                out->cols[k] = (unsigned char)pnode_s[q];
                onp[G_IDX(g, pnode_i[q], pnode_j[q], pnode_s[q])] = (unsigned char)(k + 1 > 250 ? 250 : 1);
                if(pnode_s[q] != G_M){
                        out->p_has_gap = 1;
                }
                if(k > 0 && out->cols[k] != G_M && out->cols[k - 1] != G_M && out->cols[k] != out->cols[k - 1]){
                        out->representable = 0;
                }
        }
        onp[G_IDX(g, 0, 0, G_M)] = 1;
        /* best S_hi over paths that use at least one edge not on P: an edge (u -> v) is on P iff u and v are consecutive nodes of P.
           Since P visits each of its nodes once and every node has one (i,j), "v on P and u on P and u precedes v directly" is
           equivalent to: both on P and u = predecessor of v on P. */
        {
                /* predecessor table of P */
                size_t N = ((size_t)n + 1) * ((size_t)m + 1) * 3;
                int* pred = malloc(sizeof(int) * N);
                double bo = G_NEG;
                for(size_t z = 0; z < N; z++){
                        pred[z] = -2;
                }
                {
                        size_t prev = G_IDX(g, 0, 0, G_M);
                        for(k = 0; k < np; k++){
                                int q = np - 1 - k;
                                size_t cur = G_IDX(g, pnode_i[q], pnode_j[q], pnode_s[q]);
                                pred[cur] = (int)prev;
                                prev = cur;
                        }
                }
                for(i = 0; i <= n; i++){
                        for(j = 0; j <= m; j++){
                                for(s = 0; s < 3; s++){
                                        size_t u = G_IDX(g, i, j, s);
                                        int t;
                                        if(Fhi[u] < G_NEG / 2){
                                                continue;
                                        }
                                        for(t = 0; t < 3; t++){
                                                int ni = i + (t != G_Y), nj = j + (t != G_X);
                                                size_t v;
                                                double val;
                                                if(ni > n || nj > m){
                                                        continue;
                                                }
                                                v = G_IDX(g, ni, nj, t);
                                                if(Bhi[v] < G_NEG / 2){
                                                        continue;
                                                }
                                                if(pred[v] == (int)u){
                                                        continue;       /* edge of P */
                                                }
                                                val = Fhi[u] + g_edge(g, G_HI, i, j, s, t) + Bhi[v];
                                                if(val > bo){
                                                        bo = val;
                                                }
                                        }
                                }
                        }
                }
                out->best_other_hi = bo;
                free(pred);
        }
        out->margin = out->s_lo - out->best_other_hi;
        out->certified = out->representable && out->margin > delta;
        free(onp);
        free(pnode_i);
        free(pnode_j);
        free(pnode_s);
        free(Flo);
        free(Fhi);
        free(Bhi);
}
#endif
