/* Plain dynamic-programming references: global edit distance, substring (semi-global) edit distance,
   containment under a residue-class mapping.  No kalign code. */
#ifndef ORACLE_EDITDIST_H
#define ORACLE_EDITDIST_H
#include <stdlib.h>
#include <string.h>
#include <stdint.h>

/* min over all substrings s of text[0..n) of the edit distance between s and pat[0..m) (unit costs) */
static int ed_substring(const uint8_t* text, int n, const uint8_t* pat, int m)
{
        int* prev = malloc(sizeof(int) * (size_t)(m + 1));
        int* cur = malloc(sizeof(int) * (size_t)(m + 1));
        int i, j, best;
        for(j = 0; j <= m; j++){
                prev[j] = j;            /* column for the empty text prefix: j deletions of pattern symbols */
        }
        best = prev[m];
        for(i = 1; i <= n; i++){
                int* t;
                cur[0] = 0;             /* a match may start anywhere in the text */
                for(j = 1; j <= m; j++){
                        int sub = prev[j - 1] + (text[i - 1] != pat[j - 1]);
                        int del = prev[j] + 1;
                        int ins = cur[j - 1] + 1;
                        int v = sub < del ? sub : del;
                        cur[j] = v < ins ? v : ins;
                }
                if(cur[m] < best){
                        best = cur[m];
                }
                t = prev;
                prev = cur;
                cur = t;
        }
        free(prev);
        free(cur);
        return best;
}

/* class of a letter in the published 13-class reduction used for guide-tree distances:
   (L,M) (I,V) (K,R) (E,Q,Z) (A,S,T) (N,D,B) (F,Y); every other letter is its own class; case-insensitive */
static char ed_protein_class(char c)
{
        if(c >= 'a' && c <= 'z'){
                c = (char)(c - 32);
        }
        switch(c){
        case 'M': return 'L';
        case 'V': return 'I';
        case 'R': return 'K';
        case 'Q': case 'Z': return 'E';
        case 'S': case 'T': return 'A';
        case 'D': case 'B': return 'N';
        case 'Y': return 'F';
        case 'U': return 'X';
        default: return c;
        }
}

/* nucleotide classes: U = T, every IUPAC ambiguity code = N */
static char ed_dna_class(char c)
{
        if(c >= 'a' && c <= 'z'){
                c = (char)(c - 32);
        }
        switch(c){
        case 'A': case 'C': case 'G': case 'T': return c;
        case 'U': return 'T';
        default: return 'N';
        }
}

/* is a contained in b (as a contiguous substring) when letters of one class count as equal? */
static int ed_contained(const char* a, const char* b, int protein)
{
        size_t la = strlen(a), lb = strlen(b), i, j;
        if(la > lb){
                return 0;
        }
        for(i = 0; i + la <= lb; i++){
                for(j = 0; j < la; j++){
                        char x = protein ? ed_protein_class(a[j]) : ed_dna_class(a[j]);
                        char y = protein ? ed_protein_class(b[i + j]) : ed_dna_class(b[i + j]);
                        if(x != y){
                                break;
                        }
                }
                if(j == la){
                        return 1;
                }
        }
        return 0;
}
#endif
