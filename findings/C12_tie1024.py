#!/usr/bin/env python3
"""Known finding C12 (see known_findings.txt): copies of a sequence longer than 1024 residues come out as different rows when
other sequences share their first 1024 residues.  Usage: findings/C12_tie1024.py <kalign binary>   (exit 1 = rows differ)"""
import random, subprocess, sys, tempfile, os
random.seed(7)
AA = "LKWAVDEGSTNQRHFYMICP"
P = "".join(random.choice(AA) for _ in range(1060))
def rel(pos):
    return (P[:pos] + "WWWWW" + P[pos:])[:1060]
recs = [("t0", P), ("t1", P), ("t2", rel(1033)), ("t3", rel(1036)), ("t4", P), ("t5", rel(1039)), ("t6", rel(1042)), ("t7", rel(1045))]
d = tempfile.mkdtemp()
inp, out = os.path.join(d, "in.fa"), os.path.join(d, "out.fa")
open(inp, "w").write("".join(">%s\n%s\n" % r for r in recs))
subprocess.run([sys.argv[1], "-i", inp, "-o", out, "--format", "fasta"], stdout=subprocess.DEVNULL, stderr=subprocess.DEVNULL, stdin=subprocess.DEVNULL, check=True)
rows, name = {}, None
for ln in open(out):
    ln = ln.strip()
    if ln.startswith(">"):
        name = ln[1:]; rows[name] = ""
    elif name:
        rows[name] += ln
copies = [rows[n] for n in ("t0", "t1", "t4")]
for n in ("t0", "t1", "t4"):
    print(n, rows[n][1020:])
same = len(set(copies)) == 1
print("copies have identical rows" if same else "copies t0/t1/t4 (identical input sequences) have different rows")
sys.exit(0 if same else 1)
