#!/usr/bin/env python3
"""Regenerates MANIFEST.json from the table below (kept valid at all times)."""
import json, os, subprocess
V = os.path.dirname(os.path.dirname(os.path.abspath(__file__)))
props = [json.loads(l) for l in open(os.path.join(V, "properties.jsonl"))]

CHECKS = {
 "C01": dict(cat="model_checking", tech="bounded-exhaustive enumeration of inputs x configurations on the real library, integrity predicate + independent format parsers",
   text="Every tuple of 2..5 sequences up to a length bound over 2-3 letter alphabets (empty records included), crossed with every admissible type, three penalty presets and four entry point/format combinations, plus a finite family of large shapes around the 60/100/256/500/512/1024 thresholds, is run through the real library; each result is judged by an independent integrity predicate and each written file by independent parsers. Exhaustive within the stated bounds.",
   note="Bounds are finite (small-scope hypothesis); oracle code in /verif/oracle and harness/kx.h is trusted; thread/schedule axis is delegated to C02.", ref="3/C01"),
 "C02": dict(cat="model_checking", tech="stateless preemption-bounded schedule exploration of the real code under a replacement OpenMP runtime (vgomp) + free-running ThreadSanitizer pass",
   text="kalign's objects are linked against a replacement for libgomp that owns every scheduling decision; for inputs reaching every parallel region (distance loop, k-means restarts and recursion, tree-parallel merges, nested forward/backward tasks) all schedules within a preemption (small harnesses) or departure (>=100 sequences) bound are executed on the real code, for 2-4 threads with nested teams off/on; every execution is compared byte-for-byte with the OpenMP-free build and checked by an ordering monitor over hook events; the canonical schedule is run for every thread count 1..64; a separate free-running ThreadSanitizer pass checks the same harness bodies for unordered conflicting accesses.",
   note="Granularity = runtime calls + hook events; bounds per job are in the evidence; vgomp over-approximates tied-task placement (sound for n_threads up to the number of tasks); the scheduler itself is self-tested on toy programs with known schedule dependence on every run.", ref="2.2, 3/C02"),
 "C09": dict(cat="model_checking", tech="complete enumeration of the finite configuration table on the real code (aln_param_init, kalign_run via hook, CLI main in-process), differential oracle",
   text="The configuration space of C09 is finite and is enumerated completely: 2 kinds x 6 type constants x 8 override subsets x 3 values through aln_param_init and, observed through the PARAMS hook, through kalign_run; every documented --type word x kind x subset through the CLI's own main(); explicit-default == implicit-default on all pairs over 3 letters up to length 3; README numbers. The oracle is differential (an override changes exactly the named field relative to the same build's no-override result).",
   note="Golden values only for what README.md states; the hook exposes the aln_param actually used.", ref="3/C09"),
}

def _enum(text, note, ref, tech="bounded-exhaustive enumeration of the stated finite space on the real library, independent oracle"):
    return dict(cat="model_checking", tech=tech, text=text, note=note, ref=ref)

CHECKS.update({
 "C03": _enum("For every named set of 3..5 sequences over a small alphabet up to a length bound (two namings) and every admissible type, ALL k! record orders are run and the map name -> gapped row must equal that of the input order; for the k-means path (>=100 sequences) two sets x two namings are run under the complete family {transpositions, rotations, reversal} (every 10th transposition in the quick tier).",
              "Distinct names by construction; n_threads=1 on the OpenMP-free build.", "3/C03"),
 "C04": _enum("Every base set (all pairs/triples over {A,C} up to a length bound plus four larger sets) is presented in every way a finite grammar produces (wrapping, blank lines, padding, gap runs with 3 symbols, mostly-gap alignments, independently written Clustal/MSF, splits over 2-3 files of mixed formats, standard input through the CLI's own main) and the output bytes must equal those for the bare one-file FASTA.",
              "Presentation writers are harness code; stdin legs run the CLI main() in a forked child.", "3/C04"),
 "C06": _enum("Every member of the alignment family (run-produced alignments at widths around multiples of 60 with names of 1..200 characters over the allowed set and mixed-case residues; every small alignment read from a file) is written in format f1, read, compared, converted to f2 through the public API, read and compared again, for all 9 ordered format pairs.",
              "The read side is observed on the msa object (names, seq, gaps[]).", "3/C06"),
 "C08": _enum("Every string over {A,C,N,R,U} / {L,K,X,B,Z} up to a length bound x 2..5 copies x every type constant, plus structured strings at lengths 1..5000 x 2..500 copies within a stated size budget, on the OpenMP-free build (1 thread) and on the real libgomp build (2,3,16 threads); no gap may appear.",
              "Types that do not fit the detected kind are expected to be rejected; 5000x500 is beyond the size budget and reported as skipped.", "3/C08"),
 "C11": _enum("All binary (text, pattern) pairs up to length 11 (13 thorough) and all ternary pairs up to 6 (8) against a plain DP, for bpm_block, bpm, bpm_256 and for bpm_block re-instantiated from the same source with 8-bit words (2-block regime exhaustively); complete one-edit families around 13-symbol texts at every block boundary up to 3 blocks and at the 1024 cap; AVX2 and non-AVX2 builds.",
              "Arbitrary multi-block patterns at 64-bit width are covered only through the word-width-parametric source.", "3/C11"),
 "C12": _enum("Every tuple of 3..5 sequences over {A,C}/{L,M,K} up to a length bound that contains a repeated member, every admissible type; the containment premise is decided by independent code on the published 13-class reduction; copies must have identical rows; plus 48 sets of 20..99 sequences built from 3..5 distinct sequences.",
              "Members outside the premise are counted and not judged.", "3/C12"),
 "C13": _enum("Every count vector over the letter classes (shared ACGTN, U, protein-only, other) with total <= 14 (30 thorough) that satisfies one of the two premises x non-residue character factors {0,1,5,10x} x 12 arrangements x entry point; the detected kind must equal the premise's.",
              "The decision is linear in the histogram, so bounded totals cover every proportion with that denominator.", "3/C13"),
 "C14": _enum("For every base set over {A,C,T}/{L,K,B,U,Z,X} up to a length bound and every type constant, ALL 2^residues case patterns and (nucleotides) ALL 2^(#T) T/U patterns are run; the gap pattern must equal the base run's and the letters those of the respelt input.",
              "Base sets whose type is rejected are skipped and counted.", "3/C14"),
 "C15": _enum("Every member of the alignment family plus two alignments with more than 1024 output lines is written in all three formats, to a file and to stdout, and parsed by independent readers: 60-column wrapping/blocks, every sequence in every block in order, headers, MSF length, per-row and total GCG checksums, molecule type.",
              "Date ignored; checksums recomputed over the rows as written.", "3/C15"),
 "C10": dict(cat="model_checking", tech="bounded-exhaustive enumeration of inputs with a hook snapshot at every guide-tree node, plus the same oracle on every explored schedule (vgomp)",
   text="At every node completion (MERGE_END hook) the member gap vectors are copied; after the run every snapshot must equal the projection of the final alignment onto the node's members. Enumerated over all tuples of 3..5 sequences up to a length bound x 3 penalty presets, k-means trees of 104/130/230 sequences and the 99..513-sequence shapes; and evaluated on every schedule of a subset of the C02 exploration.",
   note="Snapshot member ids are mapped to final rows by re-deriving the canonical order (distinct names by construction).", ref="3/C10"),
 "C16": dict(cat="model_checking", tech="explicit-state breadth-first search over API-call histories executed on the real library (state = history replayed in a fresh process), differential oracle + LeakSanitizer",
   text="All histories up to depth 3 (quick) / 4 (thorough) over an alphabet of 28 library operations on two object slots and several mutually different inputs (nucleotide, protein, aligned, 104 sequences) are executed, each in a fresh process; the result of the last call must equal its result after only the calls that (transitively) touch its own objects, run in another fresh process; after freeing all objects LeakSanitizer must find nothing. A second leg runs on the real libgomp with 1 and 4 threads.",
   note="States are not merged; MSF date/file name masked; the OpenMP runtime's own pool is outside the leak oracle (ASan leg is the OpenMP-free build).", ref="3/C16"),
 "C07": _enum("An independent full-matrix three-state DP computes, for every enumerated pair and configuration, P = argmax of the most severe gap convention (S_lo) and the best score any other alignment reaches under the most generous one (S_hi); when the margin exceeds a stated delta, P is certified as the alignment kalign must return, and kalign is run with groups of 1..3 identical copies on either side (seq-seq, seq-profile, profile-profile kernels). Enumerated: all pairs over {A,C,G}, {A,C}, {L,K,W} up to a length bound x 8-9 configurations (5 type defaults, 6 user penalty triples), a planted insertion/substitution/overhang family, and long pairs on both sides of the 500-column serial/parallel switch (second leg: 4 threads on the real libgomp).",
              "Uncertified cases are skipped and counted; the bracket S_lo <= kalign's evaluation <= S_hi is an assumption validated by zero mismatches on the unchanged tree.", "3/C07"),
 "C05": dict(cat="fault_enumeration", tech="bounded-exhaustive enumeration of input byte strings (token strings, deviation-bounded mutations of valid files), option strings and injected I/O faults on the real code under ASan/UBSan/valgrind",
   text="Three complete spaces: every string of <= 4 (5) tokens over 21 tokens as an input file; every 0/1(/2)-deviation mutation (truncation, line deletion/duplication/swap, byte replacement) of one valid file per readable format plus oversized shapes; every option string of a small grammar and every single injected fopen failure through the CLI. Each is pushed through read -> run -> write -> free; success must come with a valid alignment of what the reader reported and no growth of live allocations; failure must be a failure status (non-zero exit and a diagnostic for the CLI); sanitizers must stay silent; a valgrind leg looks for uninitialised-value use.",
   note="Allocation failure is not injected; leaks are judged on the success path only, as the property states.", ref="3/C05"),
 "C17": _enum("For every listed set of 2..4 uniquely named short sequences ALL alignments are generated; every ordered pair (reference, test) is compared by kalign_msa_compare under row permutations, all-gap columns and three file renderings (and a run-produced reference) and judged by an independent implementation of the score definition.",
              "Files always contain a gap character (premise); tolerance 1e-4 relative.", "3/C17"),
})

NA_REASON = "check not built yet (work in progress; see DESIGN.md section 3)"

def main():
    checks = []
    for p in props:
        c = CHECKS.get(p["id"])
        if not c or not os.path.exists(os.path.join(V, "checks", p["id"] + ".py")):
            continue
        checks.append({
            "property_id": p["id"],
            "quick_cmd": "bin/check %s --tier quick" % p["id"],
            "thorough_cmd": "bin/check %s --tier thorough" % p["id"],
            "evidence_file": "evidence/%s.json" % p["id"],
            "replay_cmd_template": "bin/check %s --replay {path}" % p["id"],
            "engine": c.get("engine", "enum" if p["id"] != "C02" else "vgomp+explore"),
            "level_claimed": {"category": c["cat"], "text": c["text"], "design_ref": "DESIGN.md section " + c["ref"]},
            "level_note": c["note"],
            "technique": c["tech"],
        })
    claimed = {c["property_id"] for c in checks}
    hooks = subprocess.run(["git", "-C", "/repo", "log", "--format=%h %s"], capture_output=True, text=True).stdout.split("\n")
    hook_commits = [l.split()[0] for l in hooks if "verif hooks" in l]
    m = {
        "version": 1,
        "setup_cmd": "bin/setup.sh",
        "hooks": {"guard": "KALIGN_VERIF", "enable": "-DKALIGN_VERIF on every variant built by engine/build.py (builds go to /verif/build/<variant>-<hash of /repo's working tree>)",
                  "baseline_off_cmd": "bin/baseline_off.sh", "source_commits": hook_commits[::-1], "add_only": True},
        "engines": [
            {"name": "enum", "path": "harness/vh.h", "serves_properties": sorted(claimed - {"C02"}), "kind_free_text": "bounded-exhaustive case enumeration with fork isolation, sharded over 16 processes"},
            {"name": "vgomp+explore", "path": "engine/vgomp, engine/explore", "serves_properties": ["C02", "C10"], "kind_free_text": "replacement OpenMP runtime with controlled scheduler + stateless deviation-bounded DFS; free-running mode for ThreadSanitizer"},
        ],
        "checks": checks,
        "notes": "Technique family: model checking (exhaustive bounded exploration of the implementation). See DESIGN.md. Known defects: known_findings.txt.",
        "not_applicable": [{"property_id": p["id"], "reason": NA_REASON} for p in props if p["id"] not in claimed],
    }
    json.dump(m, open(os.path.join(V, "MANIFEST.json"), "w"), indent=1)
    print("claimed:", sorted(claimed))

main()
