#!/usr/bin/env python3
"""Regenerates MANIFEST.json from the table below (kept valid at all times)."""
import json, os, subprocess
V = os.path.dirname(os.path.dirname(os.path.abspath(__file__)))
props = [json.loads(l) for l in open(os.path.join(V, "properties.jsonl"))]

CHECKS = {
 "C01": dict(cat="model_checking", tech="bounded-exhaustive enumeration of inputs x configurations on the real library, integrity predicate + independent format parsers",
   text="Every tuple of 2..5 sequences up to a length bound over 2-3 letter alphabets (empty records included), crossed with every admissible type, three penalty presets and four entry point/format combinations, plus a finite family of large shapes around the 60/100/256/500/512/1024 thresholds, is run through the real library; each result is judged by an independent integrity predicate and each written file by independent parsers. Exhaustive within the stated bounds.",
   note="Bounds are finite (small-scope hypothesis); oracle code in /verif/oracle and harness/kx.h is trusted; thread/schedule axis is delegated to C02.", ref="3/C01"),
 "C02": dict(cat="model_checking", tech="stateless preemption-bounded schedule exploration of the real code under a replacement OpenMP runtime (vgomp) + free-running ThreadSanitizer pass",
   text="kalign's objects are linked against a replacement for libgomp that owns every scheduling decision; for inputs reaching every parallel region (distance loop, k-means restarts and recursion, tree-parallel merges, nested forward/backward tasks) all schedules within a preemption (small harnesses) or departure (>=100 sequences) bound are executed on the real code, for 2-4 threads with nested teams off/on; every execution is compared byte-for-byte with the OpenMP-free build and checked by an ordering monitor over hook events; the canonical schedule is run for every thread count 1..64; a separate free-running ThreadSanitizer pass checks the same harness bodies for unordered conflicting accesses.",
   note="Granularity = runtime calls + hook events; bounds per job are in the evidence; vgomp over-approximates tied-task placement (sound for n_threads up to the number of tasks); the scheduler itself is self-tested on toy programs with known schedule dependence on every run.", ref="2.2, 3/C02"),
 "C09": dict(cat="model_checking", tech="complete enumeration of the finite configuration table on the real code (aln_param_init, kalign_run via hook, CLI main in-process), differential oracle",
   text="The configuration space of C09 is finite and is enumerated completely: 2 kinds x 6 type constants x 8 override subsets x 3 values through aln_param_init and, observed through the PARAMS hook, through kalign_run; every documented --type word x kind x subset through the CLI's own main(); explicit-default == implicit-default on all pairs over 3 letters up to length 3; README numbers. The oracle is differential (an override changes exactly the named field relative to the same build's no-override result).",
   note="Golden values only for what README.md states; the hook exposes the aln_param actually used.", ref="3/C09"),
}

NA_REASON = "check not built yet (work in progress; see DESIGN.md section 3)"

def main():
    checks = []
    for p in props:
        c = CHECKS.get(p["id"])
        if not c or not os.path.exists(os.path.join(V, "checks", p["id"] + ".py")):
            continue
        checks.append({
            "property_id": p["id"],
            "quick_cmd": "bin/check %s --tier quick" % p["id"],
            "thorough_cmd": "bin/check %s --tier thorough" % p["id"],
            "evidence_file": "evidence/%s.json" % p["id"],
            "replay_cmd_template": "bin/check %s --replay {path}" % p["id"],
            "engine": c.get("engine", "enum" if p["id"] != "C02" else "vgomp+explore"),
            "level_claimed": {"category": c["cat"], "text": c["text"], "design_ref": "DESIGN.md section " + c["ref"]},
            "level_note": c["note"],
            "technique": c["tech"],
        })
    claimed = {c["property_id"] for c in checks}
    hooks = subprocess.run(["git", "-C", "/repo", "log", "--format=%h %s"], capture_output=True, text=True).stdout.split("\n")
    hook_commits = [l.split()[0] for l in hooks if "verif hooks" in l]
    m = {
        "version": 1,
        "setup_cmd": "bin/setup.sh",
        "hooks": {"guard": "KALIGN_VERIF", "enable": "-DKALIGN_VERIF on every variant built by engine/build.py (builds go to /verif/build/<variant>-<hash of /repo's working tree>)",
                  "baseline_off_cmd": "bin/baseline_off.sh", "source_commits": hook_commits[::-1], "add_only": True},
        "engines": [
            {"name": "enum", "path": "harness/vh.h", "serves_properties": sorted(claimed - {"C02"}), "kind_free_text": "bounded-exhaustive case enumeration with fork isolation, sharded over 16 processes"},
            {"name": "vgomp+explore", "path": "engine/vgomp, engine/explore", "serves_properties": ["C02", "C10"], "kind_free_text": "replacement OpenMP runtime with controlled scheduler + stateless deviation-bounded DFS; free-running mode for ThreadSanitizer"},
        ],
        "checks": checks,
        "notes": "Technique family: model checking (exhaustive bounded exploration of the implementation). See DESIGN.md. Known defects: known_findings.txt.",
        "not_applicable": [{"property_id": p["id"], "reason": NA_REASON} for p in props if p["id"] not in claimed],
    }
    json.dump(m, open(os.path.join(V, "MANIFEST.json"), "w"), indent=1)
    print("claimed:", sorted(claimed))

main()
