#!/bin/sh
# Runs the repository's own pinned test suite with the verification guard OFF
# (no -DKALIGN_VERIF anywhere), in a scratch build directory that is removed afterwards.
set -e
B=$(mktemp -d /var/tmp/kalign-baseline-XXXXXX)
trap 'rm -rf "$B"' EXIT
cmake -G Ninja -S /repo -B "$B" -DCMAKE_BUILD_TYPE=RelWithDebInfo >"$B.log" 2>&1 || { cat "$B.log"; rm -f "$B.log"; exit 2; }
cmake --build "$B" >>"$B.log" 2>&1 || { cat "$B.log"; rm -f "$B.log"; exit 2; }
rm -f "$B.log"
ctest --test-dir "$B" -j8 --timeout 900 </dev/null
