#!/bin/sh
# Offline setup: pre-builds the variants of /repo's current tree that the quick checks use, so the first
# check does not pay for it.  Everything is rebuilt automatically anyway when /repo changes.
set -e
cd "$(dirname "$0")/.."
python3 engine/build.py serial-asan serial-O2 vgomp-asan vgomp-O2 vgomp-tsan gomp >/dev/null
python3 - <<'PY'
import sys
sys.path.insert(0, "engine")
import build, subprocess
exe = build.build_vgomp_selftest()
r = subprocess.run(["taskset", "-c", "0", exe], capture_output=True, text=True)
print(r.stdout.strip().split("\n")[-1])
sys.exit(0 if r.returncode == 0 else 1)
PY
