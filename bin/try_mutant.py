#!/usr/bin/env python3
"""bin/try_mutant.py <patch.diff> <out.json> [Cxx ...]
Applies a seeded change to /repo's working tree, runs the quick checks (all, or the listed ones), records which
report a violation, and restores the tree (git checkout -- .).  Never commits anything in /repo."""
import json, os, subprocess, sys, time
V = os.path.dirname(os.path.dirname(os.path.abspath(__file__)))
patch, out = sys.argv[1], sys.argv[2]
props = sys.argv[3:] or ["C%02d" % i for i in range(1, 18)]
st = subprocess.run(["git", "-C", "/repo", "status", "--porcelain", "--untracked-files=no"], capture_output=True, text=True).stdout.strip()
if st:
    print("refusing: /repo working tree is not clean:\n" + st)
    sys.exit(2)
r = subprocess.run(["git", "-C", "/repo", "apply", patch], capture_output=True, text=True)
if r.returncode:
    print("patch does not apply: " + r.stderr)
    sys.exit(2)
res = {}
try:
    for p in props:
        t0 = time.time()
        rr = subprocess.run([os.path.join(V, "bin/check"), p, "--tier", "quick"], capture_output=True, text=True, cwd=V)
        viol = [l for l in rr.stdout.split("\n") if l.startswith("VIOLATION")]
        sigs = [l.strip()[:300] for l in rr.stdout.split("\n") if l.startswith("  sig=")]
        res[p] = {"exit": rr.returncode, "violations": len(viol), "sigs": sigs[:6], "secs": round(time.time() - t0, 1),
                  "errors": [l[:300] for l in rr.stdout.split("\n") if l.startswith("ERROR")][:4]}
        print(p, "exit", rr.returncode, "violations", len(viol), sigs[:2])
finally:
    subprocess.run(["git", "-C", "/repo", "checkout", "--", "."])
    # evidence files were rewritten by the runs on the modified tree: restore the committed ones
    subprocess.run(["git", "-C", V, "checkout", "--", "evidence"], capture_output=True)
json.dump(res, open(out, "w"), indent=1)
