#!/bin/bash
# bin/verify_mutant.sh <worktree> [MUTANT dir name, default MUTANT]
# Confirms: patch applies to the clean tree; tests pass with the change; demo fails with it and passes without it.
WT=$1
M=${2:-MUTANT}
cd "$WT" || exit 2
LOG=$WT/$M/verify.log
: > "$LOG"
git checkout -q -- . 2>>"$LOG"
git apply --check $M/patch.diff >>"$LOG" 2>&1 || { echo "patch does not apply to the clean tree"; exit 1; }
build() { cmake -G Ninja -S "$WT" -B "$WT/_build" -DCMAKE_BUILD_TYPE=RelWithDebInfo >>"$LOG" 2>&1 && cmake --build "$WT/_build" >>"$LOG" 2>&1; }
# without the change
build || { echo "clean build failed"; exit 1; }
( cd $M && timeout 900 bash ./demo.sh </dev/null >>"$LOG" 2>&1 ); CLEAN=$?
# with the change
git apply $M/patch.diff
build || { echo "build with change failed"; exit 1; }
ctest --test-dir "$WT/_build" -j8 --timeout 900 </dev/null >>"$LOG" 2>&1; TESTS=$?
( cd $M && timeout 900 bash ./demo.sh </dev/null >>"$LOG" 2>&1 ); MUT=$?
echo "demo_clean_exit=$CLEAN tests_exit=$TESTS demo_mutant_exit=$MUT"
[ $CLEAN -eq 0 ] && [ $TESTS -eq 0 ] && [ $MUT -ne 0 ]
