#!/usr/bin/env python3
"""Builds /repo's CURRENT WORKING TREE into the variants the checks need.

Every variant is compiled with -DKALIGN_VERIF.  Objects go to
/verif/build/<variant>-<hash>/ where <hash> covers the repository sources, the
flags and the engine sources linked in, so an edit to /repo always produces a
fresh build and stale builds of the same variant are deleted.  The repository's
own _build directory is never used.
"""
import fcntl, hashlib, os, re, shutil, subprocess, sys, glob
from concurrent.futures import ThreadPoolExecutor

REPO = os.environ.get("KALIGN_REPO", "/repo")
VERIF = os.path.dirname(os.path.dirname(os.path.abspath(__file__)))
BUILD = os.path.join(VERIF, "build")
VERSION = '"3.4.1"'

COMMON = ["-std=gnu11", "-DKALIGN_VERIF", "-DKALIGN_PACKAGE_VERSION=" + VERSION,
          "-DKALIGN_PACKAGE_NAME=\"kalign\"", "-fno-omit-frame-pointer", "-w"]
AVX = ["-mavx2", "-DHAVE_AVX2"]
ASAN = ["-fsanitize=address,undefined", "-fno-sanitize-recover=undefined",
        "-fno-sanitize=shift-base"]
# shift-base is excluded: bpm_256() builds its bit tables with 1 << 31 on an int,
# which UBSan flags although every compiler targeted defines it; it is not a
# property violation of C05 (the routine is not reachable from any input).

VARIANTS = {
    # name: (cc, cflags, ldflags, engine objects)
    "serial-asan": ("gcc", ["-O1", "-g"] + AVX + ASAN, ASAN + ["-lm"], []),
    "serial-O2": ("gcc", ["-O2", "-g"] + AVX, ["-lm"], []),
    "plain-g": ("gcc", ["-O1", "-g"] + AVX, ["-lm"], []),
    "noavx": ("gcc", ["-O1", "-g", "-DNOHAVE_AVX2"] + ASAN, ASAN + ["-lm"], []),
    "vgomp-asan": ("gcc", ["-O1", "-g", "-fopenmp", "-DHAVE_OPENMP"] + AVX + ASAN,
                   ASAN + ["-lm", "-lpthread"], ["vgomp"]),
    "vgomp-O2": ("gcc", ["-O2", "-g", "-fopenmp", "-DHAVE_OPENMP"] + AVX,
                 ["-lm", "-lpthread"], ["vgomp"]),
    "vgomp-tsan": ("gcc", ["-O1", "-g", "-fopenmp", "-DHAVE_OPENMP", "-fsanitize=thread"] + AVX,
                   ["-fsanitize=thread", "-lm", "-lpthread"], ["vgomp-free"]),
    "gomp": ("gcc", ["-O2", "-g", "-fopenmp", "-DHAVE_OPENMP"] + AVX, ["-fopenmp", "-lm"], []),
}


def sh(cmd, **kw):
    r = subprocess.run(cmd, stdout=subprocess.PIPE, stderr=subprocess.STDOUT, text=True, **kw)
    return r.returncode, r.stdout


def lib_sources():
    """Source list as lib/CMakeLists.txt names it (so files added by an edit are built)."""
    txt = open(os.path.join(REPO, "lib/CMakeLists.txt")).read()
    m = re.search(r"set\(source_files(.*?)\)", txt, re.S)
    out = []
    if m:
        for line in m.group(1).split("\n"):
            line = line.split("#")[0].strip()
            if line.endswith(".c"):
                out.append(os.path.join(REPO, "lib", line))
    if not out:
        out = sorted(glob.glob(os.path.join(REPO, "lib/src/*.c")))
    return [f for f in out if os.path.exists(f)]


def tree_hash(extra=()):
    h = hashlib.sha256()
    files = sorted(glob.glob(os.path.join(REPO, "lib/src/*.[ch]")) +
                   glob.glob(os.path.join(REPO, "lib/include/kalign/*.h")) +
                   glob.glob(os.path.join(REPO, "src/*.[ch]")) +
                   [os.path.join(REPO, "lib/CMakeLists.txt")])
    for f in files + list(extra):
        h.update(f.encode())
        try:
            h.update(open(f, "rb").read())
        except OSError:
            pass
    return h


class BuildError(Exception):
    pass


def build_variant(name):
    """Returns the directory holding libkalign.a (+ engine objects) for the variant."""
    cc, cflags, ldflags, eng = VARIANTS[name]
    engfiles = sorted(glob.glob(os.path.join(VERIF, "engine/vgomp/*.[ch]")))
    h = tree_hash(engfiles)
    h.update(repr((cc, cflags, ldflags, eng)).encode())
    h.update(open(os.path.abspath(__file__), "rb").read())
    hx = h.hexdigest()[:16]
    d = os.path.join(BUILD, "%s-%s" % (name, hx))
    os.makedirs(BUILD, exist_ok=True)
    lock = open(os.path.join(BUILD, ".lock-" + name), "w")
    fcntl.flock(lock, fcntl.LOCK_EX)
    try:
        if os.path.exists(os.path.join(d, "OK")):
            return d
        for old in glob.glob(os.path.join(BUILD, name + "-*")):
            shutil.rmtree(old, ignore_errors=True)
        os.makedirs(os.path.join(d, "obj"))
        inc = ["-I" + os.path.join(REPO, "lib/include"), "-I" + os.path.join(REPO, "lib/src"),
               "-I" + os.path.join(REPO, "src")]
        jobs = []
        for src in lib_sources():
            o = os.path.join(d, "obj", os.path.basename(src)[:-2] + ".o")
            jobs.append(([cc] + COMMON + cflags + inc + ["-c", src, "-o", o], o))
        # CLI objects (main renamed so harnesses may link them in-process as well)
        cli = []
        for src in ("run_kalign.c", "parameters.c"):
            p = os.path.join(REPO, "src", src)
            o = os.path.join(d, "obj", "cli_" + src[:-2] + ".o")
            jobs.append(([cc] + COMMON + cflags + inc + ["-c", p, "-o", o], o))
            cli.append(o)
        # the CLI's main() as a callable function, for in-process observation (C04/C05/C09)
        jobs.append(([cc] + COMMON + cflags + inc + ["-Dmain=kalign_cli_main", "-c", os.path.join(REPO, "src", "run_kalign.c"),
                      "-o", os.path.join(d, "cli_main_renamed.o")], os.path.join(d, "cli_main_renamed.o")))
        engobjs = []
        for e in eng:
            if e == "vgomp":
                src = os.path.join(VERIF, "engine/vgomp/vgomp.c")
                o = os.path.join(d, "vgomp.o")
                fl = [f for f in cflags if not f.startswith("-fsanitize") and not f.startswith("-fno-sanitize")
                      and f != "-fopenmp"]
                jobs.append(([cc, "-std=gnu11", "-w", "-fno-omit-frame-pointer"] + fl + ["-c", src, "-o", o], o))
                engobjs.append(o)
            elif e == "vgomp-free":
                src = os.path.join(VERIF, "engine/vgomp/vgomp_free.c")
                o = os.path.join(d, "vgomp.o")
                jobs.append(([cc, "-std=gnu11", "-w", "-O1", "-g", "-c", src, "-o", o], o))
                engobjs.append(o)

        def run(j):
            rc, out = sh(j[0])
            return rc, out, j

        with ThreadPoolExecutor(16) as ex:
            for rc, out, j in ex.map(run, jobs):
                if rc != 0:
                    raise BuildError("compile failed: %s\n%s" % (" ".join(j[0]), out))
        objs = [j[1] for j in jobs if "/obj/" in j[1] and not os.path.basename(j[1]).startswith("cli_")]
        rc, out = sh(["ar", "rcs", os.path.join(d, "libkalign.a")] + objs)
        if rc:
            raise BuildError(out)
        # the CLI binary
        rc, out = sh([cc] + cli + [os.path.join(d, "libkalign.a")] + engobjs + ldflags + ["-o", os.path.join(d, "kalign")])
        if rc:
            raise BuildError("CLI link failed:\n" + out)
        open(os.path.join(d, "OK"), "w").write("ok\n")
        return d
    finally:
        fcntl.flock(lock, fcntl.LOCK_UN)
        lock.close()


def build_harness(name, variant, sources, extra_cflags=(), extra_ld=(), link_lib=True, cc=None, with_cli=False):
    """Compiles harness `name` from `sources` (paths relative to /verif) against the variant."""
    d = build_variant(variant)
    vcc, cflags, ldflags, eng = VARIANTS[variant]
    cc = cc or vcc
    srcs = [os.path.join(VERIF, s) for s in sources]
    deps = sorted(glob.glob(os.path.join(VERIF, "harness/*.h")) + glob.glob(os.path.join(VERIF, "engine/*/*.[ch]")))
    h = hashlib.sha256()
    for f in srcs + deps:
        h.update(open(f, "rb").read())
    h.update(repr((extra_cflags, extra_ld, link_lib, cc, with_cli)).encode())
    exe = os.path.join(d, "%s-%s" % (name, h.hexdigest()[:12]))
    lock = open(os.path.join(BUILD, ".lock-h-" + name + "-" + variant), "w")
    fcntl.flock(lock, fcntl.LOCK_EX)
    try:
        if os.path.exists(exe):
            return exe
        for old in glob.glob(os.path.join(d, name + "-*")):
            os.unlink(old)
        inc = ["-I" + os.path.join(REPO, "lib/include"), "-I" + os.path.join(REPO, "lib/src"),
               "-I" + os.path.join(REPO, "src"), "-I" + os.path.join(VERIF, "harness"),
               "-I" + os.path.join(VERIF, "engine")]
        hflags = [f for f in cflags if f != "-fopenmp"]
        cmd = [cc] + COMMON + hflags + list(extra_cflags) + inc + srcs
        if with_cli:
            cmd += [os.path.join(d, "cli_main_renamed.o"), os.path.join(d, "obj", "cli_parameters.o")]
        if link_lib:
            cmd += [os.path.join(d, "libkalign.a")]
            if eng:
                cmd += [os.path.join(d, "vgomp.o")]
        cmd += ldflags + list(extra_ld) + ["-o", exe + ".tmp"]
        rc, out = sh(cmd)
        if rc:
            raise BuildError("harness build failed: %s\n%s" % (" ".join(cmd), out))
        os.rename(exe + ".tmp", exe)
        return exe
    finally:
        fcntl.flock(lock, fcntl.LOCK_UN)
        lock.close()


def build_vgomp_selftest():
    """engine/vgomp/selftest.c compiled with -fopenmp, linked WITHOUT libgomp against vgomp.o."""
    d = build_variant("vgomp-O2")
    src = os.path.join(VERIF, "engine/vgomp/selftest.c")
    h = hashlib.sha256(open(src, "rb").read() + open(os.path.join(VERIF, "engine/explore/explore.h"), "rb").read()).hexdigest()[:12]
    exe = os.path.join(d, "vgselftest-" + h)
    if os.path.exists(exe):
        return exe
    o = exe + ".o"
    rc, out = sh(["gcc", "-std=gnu11", "-O1", "-g", "-fopenmp", "-I" + os.path.join(VERIF, "engine"), "-c", src, "-o", o])
    if rc:
        raise BuildError(out)
    rc, out = sh(["gcc", o, os.path.join(d, "vgomp.o"), "-lpthread", "-o", exe])
    if rc:
        raise BuildError(out)
    return exe


if __name__ == "__main__":
    for v in sys.argv[1:] or ["serial-asan"]:
        print(v, build_variant(v))
