/* vgomp, controlled mode.  See vgomp.h and DESIGN.md section 2.2.

   Model.  Every implicit task of a team and every deferred explicit task is a *strand*
   (an OS thread that only runs while it holds the baton).  A team of N threads is modelled
   by a concurrency cap: at most N strands of the team are "on a thread" at any time.  A
   strand that blocks (taskwait with children outstanding, end-of-region barrier, task end)
   or that stands at a task scheduling point and is not chosen gives its thread up, which
   is what lets a thread waiting in taskwait/barrier execute other tasks of the team.  A
   strand preempted at a plain yield (hook event) keeps its thread.  Tied-task placement is
   not modelled: every schedule it admits is also admitted by an OpenMP runtime with one
   thread per task (n_threads up to 64 is inside C02's quantifier), so no schedule explored
   here is illegal for the program; it only over-approximates what a *small* team can do.

   Only one strand runs at a time, so this file needs no locking of its own; the semaphore
   hand-off orders all accesses. */
#define _GNU_SOURCE
#include <pthread.h>
#include <semaphore.h>
#include <stdlib.h>
#include <string.h>
#include <stdio.h>
#include <stdint.h>
#include <stdbool.h>
#include <unistd.h>
#include "vgomp.h"

enum { S_NEW, S_RUNNING, S_READY_ACTIVE, S_READY_IDLE, S_WAIT_CHILDREN, S_WAIT_TEAM, S_WAIT_BARRIER, S_WAIT_LOCK, S_DONE };

struct vg_team;
struct vg_strand;

struct vg_task {
        int id;
        struct vg_task* parent;
        struct vg_team* team;
        struct vg_strand* strand;
        void (*fn)(void*);
        void* data;
        void* argbuf;
        int children_outstanding;
        int implicit_index;     /* -1: explicit task */
        int single_count;
        int loop_count;         /* work-sharing loops this implicit task has entered */
        struct vg_task* next_all;
};

struct vg_team {
        int N;
        int active;             /* strands of this team currently on a thread */
        int unfinished;         /* implicit strands (other than the master) + explicit tasks not finished */
        int single_claimed;
        int barrier_arrived;
        int barrier_gen;
        struct vg_strand* master;
        struct vg_team* outer;
        struct vg_team* next_all;
        int lset;               /* work-sharing loop with a dynamic/guided/runtime schedule (not used by kalign today) */
        int loop_id;            /* number of such loops the team has started */
        long lnext, lend, lincr, lchunk;
};

struct vg_worker {
        pthread_t th;
        sem_t sem;
        struct vg_strand* assigned;
        struct vg_worker* next_idle;
        struct vg_worker* next_all;
};

#define MAXDEPTH 16
struct vg_strand {
        int id;
        int state;
        struct vg_worker* w;
        struct vg_task* root;           /* task this strand was created for */
        struct vg_task* cur;            /* innermost task being executed */
        struct vg_team* teams[MAXDEPTH];/* [0] home team, above it the nested teams it masters */
        int depth;                      /* number of entries in teams[] */
        int counted;                    /* holds a thread of teams[depth-1] */
        int lock_wanted;
        struct vg_team* wait_team;      /* team whose end-of-region barrier it waits in (S_WAIT_TEAM) */
};

static struct vg_config CFG;
static int g_on = 0;
static int g_icv = 1;
static struct vg_strand** g_strands = NULL;
static int g_nstrands = 0, g_cap = 0;
static struct vg_task* g_tasks = NULL;
static struct vg_team* g_teams = NULL;
static int g_ntasks = 0;
static struct vg_worker* g_idle = NULL;
static struct vg_worker* g_workers = NULL;
static struct vg_worker g_mainw;
static struct vg_task g_roottask;
static long g_points = 0, g_steps = 0;
static int g_live = 0, g_maxlive = 0;
static int g_explicit_outstanding = 0;
static int g_lock_owner[4] = {-1,-1,-1,-1};   /* 0: default critical, 1: atomic */
static __thread struct vg_strand* self = NULL;

static int g_mainw_init = 0;
static int g_trace = 0;

/* in a forked child the pooled worker threads do not exist */
static void vg_forget_pool(void)
{
        g_workers = NULL;
        g_idle = NULL;
}

static void die(const char* what)
{
        if(CFG.fatal){
                CFG.fatal(CFG.ctx, what);
        }
        fprintf(stderr, "vgomp: fatal: %s\n", what);
        _exit(70);
}

static struct vg_strand* new_strand(struct vg_task* root, struct vg_team* team)
{
        struct vg_strand* s = calloc(1, sizeof(*s));
        if(g_nstrands == g_cap){
                g_cap = g_cap ? g_cap * 2 : 64;
                g_strands = realloc(g_strands, sizeof(*g_strands) * g_cap);
        }
        s->id = g_nstrands;
        g_strands[g_nstrands++] = s;
        s->state = S_NEW;
        s->root = root;
        s->cur = root;
        s->depth = 0;
        if(team){
                s->teams[0] = team;
                s->depth = 1;
        }
        if(root){
                root->strand = s;
        }
        return s;
}

static struct vg_task* new_task(struct vg_task* parent, struct vg_team* team, int implicit_index)
{
        struct vg_task* t = calloc(1, sizeof(*t));
        t->id = ++g_ntasks;
        t->parent = parent;
        t->team = team;
        t->implicit_index = implicit_index;
        t->next_all = g_tasks;
        g_tasks = t;
        return t;
}

static inline struct vg_team* top_team(struct vg_strand* s)
{
        return s->depth ? s->teams[s->depth - 1] : NULL;
}

static void release_thread(struct vg_strand* s)
{
        if(s->counted){
                struct vg_team* t = top_team(s);
                if(t){
                        t->active--;
                }
                s->counted = 0;
        }
}

static void acquire_thread(struct vg_strand* s)
{
        if(!s->counted){
                struct vg_team* t = top_team(s);
                if(t){
                        t->active++;
                }
                s->counted = 1;
        }
}

static int is_enabled(struct vg_strand* s)
{
        struct vg_team* t;
        switch(s->state){
        case S_READY_ACTIVE:
                return 1;
        case S_NEW:
        case S_READY_IDLE:
                t = top_team(s);
                if(!t){
                        return 1;
                }
                return t->active < t->N;
        case S_WAIT_LOCK:
                if(g_lock_owner[s->lock_wanted] != -1){
                        return 0;
                }
                t = top_team(s);
                return s->counted || !t || t->active < t->N;
        default:
                return 0;
        }
}

static void* worker_main(void* arg);

static void start_on_worker(struct vg_strand* s)
{
        struct vg_worker* w = g_idle;
        if(w){
                g_idle = w->next_idle;
                w->assigned = s;
                s->w = w;
                sem_post(&w->sem);
        }else{
                pthread_attr_t at;
                w = calloc(1, sizeof(*w));
                sem_init(&w->sem, 0, 0);
                w->assigned = s;
                w->next_all = g_workers;
                g_workers = w;
                s->w = w;
                pthread_attr_init(&at);
                pthread_attr_setstacksize(&at, 4u << 20);
                if(pthread_create(&w->th, &at, worker_main, w)){
                        die("pthread_create failed");
                }
                pthread_attr_destroy(&at);
                sem_post(&w->sem);
        }
}

/* The heart: the running strand stands at a scheduling point of the given kind. */
static void vg_point(int kind)
{
        struct vg_strand* me = self;
        int* ids;
        int n = 0;
        int cur_enabled = 0;
        int i, c;
        struct vg_strand* nx;

        g_steps++;
        if(CFG.horizon && g_steps > CFG.horizon){
                die("horizon");
        }
        if(kind == VG_KIND_YIELD){
                me->state = S_READY_ACTIVE;
        }else if(kind == VG_KIND_TSP){
                me->state = S_READY_IDLE;
                release_thread(me);
        }else{
                /* caller has set the waiting / done state */
                if(me->state != S_WAIT_LOCK){
                        release_thread(me);
                }
        }
        ids = alloca(sizeof(int) * (g_nstrands + 1));
        if(is_enabled(me)){
                ids[n++] = me->id;
                cur_enabled = 1;
        }
        {
                /* Lazy strands: a not-yet-started implicit task of a team whose `single` has already been
                   claimed will (in a parallel+single region) only find the single taken and end.  It is
                   offered only when nothing else is enabled; this restricts the schedules explored (a
                   subset of the legal ones), it never adds one.  Teams without a claimed single (the
                   static loop) are not affected. */
                int nlazy = 0;
                int* lazy = alloca(sizeof(int) * (g_nstrands + 1));
                for(i = 0; i < g_nstrands; i++){
                        struct vg_strand* s = g_strands[i];
                        if(s != me && is_enabled(s)){
                                if(CFG.lazy_idle && s->state == S_NEW && s->root && s->root->implicit_index > 0 && s->root->team->single_claimed > 0){
                                        lazy[nlazy++] = i;
                                }else{
                                        ids[n++] = i;
                                }
                        }
                }
                if(n == 0){
                        for(i = 0; i < nlazy; i++){
                                ids[n++] = lazy[i];
                        }
                }
        }
        if(n == 0){
                die("deadlock");
        }
        c = 0;
        if(n > 1){
                g_points++;
                c = CFG.choose(CFG.ctx, n, ids, cur_enabled, kind);
                if(c < 0 || c >= n){
                        die("chooser returned an out-of-range choice");
                }
        }
        if(g_trace){
                char tb[512];
                int o = snprintf(tb, sizeof tb, "vg: step %ld kind %d self %d n %d choice %d:", g_steps, kind, me->id, n, c);
                for(i = 0; i < n && o < 480; i++){
                        o += snprintf(tb + o, sizeof tb - o, " %d(s%d)", ids[i], g_strands[ids[i]]->state);
                }
                tb[o++] = '\n';
                if(write(2, tb, o) < 0){
                }
        }
        nx = g_strands[ids[c]];
        if(nx->state == S_WAIT_LOCK){
                g_lock_owner[nx->lock_wanted] = nx->id;
        }
        acquire_thread(nx);
        if(nx == me){
                me->state = S_RUNNING;
                return;
        }
        /* after the hand-off this strand's record may be freed by vg_end(): read what is needed first */
        int me_done = (me->state == S_DONE);
        struct vg_worker* myw = me->w;
        if(nx->state == S_NEW){
                nx->state = S_RUNNING;
                g_live++;
                if(g_live > g_maxlive){
                        g_maxlive = g_live;
                }
                start_on_worker(nx);
        }else{
                nx->state = S_RUNNING;
                sem_post(&nx->w->sem);
        }
        if(me_done){
                return;         /* worker goes back to its idle loop */
        }
        while(sem_wait(&myw->sem) != 0){
        }
}

static void finish_task_accounting(struct vg_task* t)
{
        struct vg_task* p = t->parent;
        if(p){
                p->children_outstanding--;
                if(p->children_outstanding == 0 && p->strand && p->strand->state == S_WAIT_CHILDREN && p->strand->cur == p){
                        p->strand->state = S_READY_IDLE;
                }
        }
}

static void team_member_finished(struct vg_team* team)
{
        team->unfinished--;
        if(team->unfinished == 0 && team->master && team->master->state == S_WAIT_TEAM && team->master->wait_team == team){
                team->master->state = S_READY_IDLE;
        }
}

static void* worker_main(void* arg)
{
        struct vg_worker* w = arg;
        for(;;){
                struct vg_strand* s;
                struct vg_task* t;
                while(sem_wait(&w->sem) != 0){
                }
                s = w->assigned;
                if(!s){
                        return NULL;    /* shutdown */
                }
                w->assigned = NULL;
                self = s;
                t = s->root;
                t->fn(t->data);
                /* strand finished */
                if(t->implicit_index < 0){
                        g_explicit_outstanding--;
                        finish_task_accounting(t);
                        if(t->argbuf){
                                free(t->argbuf);
                                t->argbuf = NULL;
                        }
                }
                team_member_finished(t->team);
                s->state = S_DONE;
                g_live--;
                self = NULL;
                /* become idle *before* handing the baton on (see header comment) */
                w->next_idle = g_idle;
                g_idle = w;
                {
                        /* vg_point needs `self` for the bookkeeping of the finishing strand */
                        self = s;
                        vg_point(VG_KIND_BLOCK);
                        self = NULL;
                }
        }
        return NULL;
}

/* ------------------------------------------------------------------ public control API */

void vg_begin(const struct vg_config* cfg)
{
        CFG = *cfg;
        g_trace = getenv("VG_TRACE") != NULL;
        g_on = 1;
        g_points = 0;
        g_steps = 0;
        g_live = 1;
        g_maxlive = 1;
        g_ntasks = 0;
        g_explicit_outstanding = 0;
        g_lock_owner[0] = g_lock_owner[1] = g_lock_owner[2] = g_lock_owner[3] = -1;
        memset(&g_roottask, 0, sizeof(g_roottask));
        g_roottask.implicit_index = 0;
        if(!g_mainw_init){
                sem_init(&g_mainw.sem, 0, 0);
                g_mainw_init = 1;
                pthread_atfork(NULL, NULL, vg_forget_pool);
        }
        self = new_strand(&g_roottask, NULL);
        self->state = S_RUNNING;
        self->w = &g_mainw;
}

void vg_end(void)
{
        int i;
        struct vg_task* t;
        struct vg_team* tm;
        for(i = 1; i < g_nstrands; i++){
                if(g_strands[i]->state != S_DONE){
                        die("vg_end: a strand is still unfinished");
                }
        }
        for(i = 0; i < g_nstrands; i++){
                free(g_strands[i]);
        }
        g_nstrands = 0;
        while((t = g_tasks)){
                g_tasks = t->next_all;
                if(t->argbuf){
                        free(t->argbuf);
                }
                free(t);
        }
        while((tm = g_teams)){
                g_teams = tm->next_all;
                free(tm);
        }
        self = NULL;
        g_on = 0;
}

/* joins the pooled workers (called from a destructor so LeakSanitizer sees no leaked threads) */
__attribute__((destructor)) static void vg_shutdown(void)
{
        struct vg_worker* w;
        while((w = g_workers)){
                g_workers = w->next_all;
                w->assigned = NULL;
                sem_post(&w->sem);
                pthread_join(w->th, NULL);
                sem_destroy(&w->sem);
                free(w);
        }
        g_idle = NULL;
        free(g_strands);
        g_strands = NULL;
        g_cap = 0;
}

void vg_yield(void)
{
        if(g_on && self && g_nstrands > 1){
                vg_point(VG_KIND_YIELD);
        }
}

int vg_self_id(void) { return self ? self->id : 0; }
int vg_self_task(void) { return (self && self->cur) ? self->cur->id : 0; }
long vg_points(void) { return g_points; }
long vg_steps(void) { return g_steps; }
int vg_max_live(void) { return g_maxlive; }
int vg_num_strands(void) { return g_nstrands; }
int vg_explicit_outstanding(void) { return g_explicit_outstanding; }

/* deferred explicit tasks, other than the running one, that are waiting to start or are mid-body
   (i.e. could be interleaved with the running strand) */
int vg_other_runnable_explicit(void)
{
        int i, n = 0;
        for(i = 0; i < g_nstrands; i++){
                struct vg_strand* s = g_strands[i];
                if(s == self || !s->root || s->root->implicit_index >= 0){
                        continue;
                }
                if(s->state == S_NEW || s->state == S_READY_ACTIVE || s->state == S_READY_IDLE || s->state == S_WAIT_LOCK){
                        n++;
                }
        }
        return n;
}

/* ------------------------------------------------------------------ the libgomp ABI (gcc 12) */

void omp_set_num_threads(int n)
{
        if(n > 0){
                g_icv = n;
        }
}

int omp_get_max_threads(void) { return g_icv; }
int omp_in_parallel(void) { return (self && top_team(self)) ? 1 : 0; }
int omp_get_level(void) { return self ? (self->depth ? self->depth : 0) : 0; }
double omp_get_wtime(void) { return 0.0; }
int omp_get_num_procs(void) { return 16; }
void omp_set_dynamic(int x) { (void)x; }
void omp_set_nested(int x) { (void)x; }
void omp_set_max_active_levels(int x) { (void)x; }

int omp_get_num_threads(void)
{
        struct vg_team* t = (g_on && self) ? top_team(self) : NULL;
        return t ? t->N : 1;
}

int omp_get_thread_num(void)
{
        struct vg_task* t;
        if(!g_on || !self){
                return 0;
        }
        for(t = self->cur; t; t = t->parent){
                if(t->implicit_index >= 0){
                        return t->implicit_index;
                }
        }
        return 0;
}

static void run_serial_region(void (*fn)(void*), void* data)
{
        fn(data);
}

static struct { int set; long next, end, incr, chunk; } g_pending_loop, g_serial_loop;

void GOMP_parallel(void (*fn)(void*), void* data, unsigned num_threads, unsigned flags)
{
        struct vg_team* team;
        struct vg_task* it0;
        struct vg_task* saved;
        struct vg_strand* me = self;
        int N, i;
        (void)flags;
        if(!g_on || !me){
                g_serial_loop = g_pending_loop;
                g_pending_loop.set = 0;
                run_serial_region(fn, data);
                g_serial_loop.set = 0;
                return;
        }
        if(top_team(me)){
                N = CFG.nested ? (num_threads ? (int)num_threads : g_icv) : 1;
        }else{
                N = num_threads ? (int)num_threads : g_icv;
        }
        if(N < 1){
                N = 1;
        }
        if(me->depth >= MAXDEPTH){
                N = 1;
        }
        team = calloc(1, sizeof(*team));
        team->N = N;
        if(g_pending_loop.set){
                team->lset = 1;
                team->lnext = g_pending_loop.next;
                team->lend = g_pending_loop.end;
                team->lincr = g_pending_loop.incr;
                team->lchunk = g_pending_loop.chunk;
                team->loop_id = 1 << 20;        /* combined parallel-loop: no member calls *_start */
                g_pending_loop.set = 0;
        }
        team->master = me;
        team->outer = top_team(me);
        team->next_all = g_teams;
        g_teams = team;
        /* the master becomes implicit task 0 of the new team and occupies one of its threads */
        if(me->depth < MAXDEPTH){
                me->teams[me->depth++] = team;
        }
        team->active = 1;       /* me->counted stays 1: it now refers to the new top team */
        me->counted = 1;
        saved = me->cur;
        it0 = new_task(saved, team, 0);
        it0->strand = me;
        me->cur = it0;
        for(i = 1; i < N; i++){
                struct vg_task* it = new_task(saved, team, i);
                it->fn = fn;
                it->data = data;
                new_strand(it, team);
                team->unfinished++;
        }
        if(N > 1){
                vg_point(VG_KIND_YIELD);        /* any implicit task may be the first to run */
        }
        fn(data);
        /* implicit barrier at the end of the region: all tasks of the team complete */
        if(team->unfinished > 0){
                me->state = S_WAIT_TEAM;
                me->wait_team = team;
                vg_point(VG_KIND_BLOCK);
                me->wait_team = NULL;
        }
        /* leave the team; the master still holds its thread of the outer team */
        me->depth--;
        me->counted = 1;        /* it never released the outer thread */
        me->cur = saved;
}

bool GOMP_single_start(void)
{
        struct vg_task* t;
        struct vg_team* team;
        if(!g_on || !self){
                return true;
        }
        team = top_team(self);
        if(!team){
                return true;
        }
        for(t = self->cur; t && t->implicit_index < 0; t = t->parent){
        }
        if(!t){
                return true;
        }
        t->single_count++;
        if(team->single_claimed < t->single_count){
                team->single_claimed = t->single_count;
                return true;
        }
        return false;
}

#define GOMP_TASK_FLAG_DEPEND (1 << 3)

void GOMP_task(void (*fn)(void*), void* data, void (*cpyfn)(void*, void*), long arg_size, long arg_align,
               bool if_clause, unsigned flags, void** depend, int priority, void* detach)
{
        struct vg_strand* me = self;
        struct vg_team* team = (g_on && me) ? top_team(me) : NULL;
        struct vg_task* t;
        char* buf;
        (void)depend; (void)priority; (void)detach;
        if(arg_align < 1){
                arg_align = 1;
        }
        if(!team || !if_clause || (flags & GOMP_TASK_FLAG_DEPEND)){
                /* undeferred: executed at once by the encountering strand.  (A task with a
                   depend clause is executed undeferred as well: the sequential order is
                   always a legal schedule, whatever the dependences say.) */
                struct vg_task* saved = me ? me->cur : NULL;
                char* raw = malloc(arg_size + arg_align + 16);
                buf = (char*)(((uintptr_t)raw + arg_align - 1) / arg_align * arg_align);
                if(cpyfn){
                        cpyfn(buf, data);
                }else if(arg_size){
                        memcpy(buf, data, arg_size);
                }
                if(g_on && me){
                        t = new_task(saved, team, -1);
                        t->strand = me;
                        me->cur = t;
                        fn(buf);
                        me->cur = saved;
                }else{
                        fn(buf);
                }
                free(raw);
                return;
        }
        t = new_task(me->cur, team, -1);
        t->fn = fn;
        {
                char* raw = malloc(arg_size + arg_align + 16 + sizeof(void*));
                /* keep the raw pointer for free(): store aligned copy at an aligned offset */
                buf = (char*)(((uintptr_t)raw + sizeof(void*) + arg_align - 1) / arg_align * arg_align);
                if(cpyfn){
                        cpyfn(buf, data);
                }else if(arg_size){
                        memcpy(buf, data, arg_size);
                }
                /* argbuf must be free()-able: remember raw in front of nothing; simply keep both */
                t->argbuf = raw;
                t->data = buf;
        }
        me->cur->children_outstanding++;
        team->unfinished++;
        g_explicit_outstanding++;
        new_strand(t, team);
        vg_point(VG_KIND_TSP);
}

void GOMP_taskwait(void)
{
        struct vg_strand* me = self;
        if(!g_on || !me){
                return;
        }
        if(me->cur->children_outstanding > 0){
                me->state = S_WAIT_CHILDREN;
                vg_point(VG_KIND_BLOCK);
        }else if(g_nstrands > 1){
                vg_point(VG_KIND_TSP);
        }
}

void GOMP_taskyield(void)
{
        if(g_on && self && g_nstrands > 1){
                vg_point(VG_KIND_TSP);
        }
}

/* taskloop (not used by kalign today; a realistic edit might introduce it): the iteration space is cut into chunks, one deferred
   task per chunk, followed - unless nogroup is given - by a wait for the tasks created (implemented as a taskwait: waits for every
   child of the encountering task, which is at least what the implicit taskgroup waits for here) */
#define VG_TASK_FLAG_UP (1 << 8)
#define VG_TASK_FLAG_GRAINSIZE (1 << 9)
#define VG_TASK_FLAG_IF (1 << 10)
#define VG_TASK_FLAG_NOGROUP (1 << 11)
void GOMP_taskloop(void (*fn)(void*), void* data, void (*cpyfn)(void*, void*), long arg_size, long arg_align, unsigned flags,
                   unsigned long num_tasks, int priority, long start, long end, long step)
{
        unsigned long n, ntasks, k, each, extra;
        long s;
        char* raw;
        char* buf;
        (void)priority;
        if(flags & VG_TASK_FLAG_UP){
                if(end <= start){
                        return;
                }
                n = (unsigned long)((end - start + step - 1) / step);
        }else{
                if(end >= start){
                        return;
                }
                n = (unsigned long)((start - end - step - 1) / -step);
        }
        if(arg_align < 1){
                arg_align = 1;
        }
        if(flags & VG_TASK_FLAG_GRAINSIZE){
                ntasks = num_tasks ? n / num_tasks : n;
        }else{
                ntasks = num_tasks ? num_tasks : (unsigned long)omp_get_num_threads();
        }
        if(ntasks < 1){
                ntasks = 1;
        }
        if(ntasks > n){
                ntasks = n;
        }
        each = n / ntasks;
        extra = n % ntasks;
        raw = malloc((size_t)arg_size + (size_t)arg_align + 16);
        buf = (char*)(((uintptr_t)raw + (uintptr_t)arg_align - 1) / (uintptr_t)arg_align * (uintptr_t)arg_align);
        s = start;
        for(k = 0; k < ntasks; k++){
                long cnt = (long)(each + (k < extra ? 1 : 0));
                long e = s + cnt * step;
                if(cpyfn){
                        cpyfn(buf, data);
                }else if(arg_size){
                        memcpy(buf, data, (size_t)arg_size);
                }
                ((long*)buf)[0] = s;
                ((long*)buf)[1] = e;
                GOMP_task(fn, buf, NULL, arg_size, arg_align, true, 0, NULL, 0, NULL);
                s = e;
        }
        free(raw);
        if(!(flags & VG_TASK_FLAG_NOGROUP)){
                GOMP_taskwait();
        }
}


/* Loops with a dynamic / guided / runtime schedule: one shared cursor per team; taking the next chunk is a scheduling point
   (any member may take any chunk).  kalign's only work-sharing loop is static (no runtime call); these exist so that an edit
   which changes a schedule clause still links and is explored. */
static bool vg_loop_next(long* istart, long* iend)
{
        struct vg_team* team = (g_on && self) ? top_team(self) : NULL;
        long n, e;
        if(team && team->lset){
                if(team->N > 1){
                        vg_point(VG_KIND_YIELD);
                }
                n = team->lnext;
                if(team->lincr > 0 ? n >= team->lend : n <= team->lend){
                        return false;
                }
                e = n + team->lchunk * team->lincr;
                if(team->lincr > 0 ? e > team->lend : e < team->lend){
                        e = team->lend;
                }
                team->lnext = e;
                *istart = n;
                *iend = e;
                return true;
        }
        if(g_serial_loop.set){
                n = g_serial_loop.next;
                if(g_serial_loop.incr > 0 ? n >= g_serial_loop.end : n <= g_serial_loop.end){
                        return false;
                }
                *istart = n;
                *iend = g_serial_loop.end;
                g_serial_loop.next = g_serial_loop.end;
                return true;
        }
        return false;
}

static void vg_parallel_loop(void (*fn)(void*), void* data, unsigned num_threads, long start, long end, long incr, long chunk, unsigned flags)
{
        g_pending_loop.set = 1;
        g_pending_loop.next = start;
        g_pending_loop.end = end;
        g_pending_loop.incr = incr ? incr : 1;
        g_pending_loop.chunk = chunk > 0 ? chunk : 1;
        GOMP_parallel(fn, data, num_threads, flags);
}

void GOMP_parallel_loop_dynamic(void (*fn)(void*), void* d, unsigned nt, long s, long e, long i, long c, unsigned f) { vg_parallel_loop(fn, d, nt, s, e, i, c, f); }
void GOMP_parallel_loop_nonmonotonic_dynamic(void (*fn)(void*), void* d, unsigned nt, long s, long e, long i, long c, unsigned f) { vg_parallel_loop(fn, d, nt, s, e, i, c, f); }
void GOMP_parallel_loop_guided(void (*fn)(void*), void* d, unsigned nt, long s, long e, long i, long c, unsigned f) { vg_parallel_loop(fn, d, nt, s, e, i, c, f); }
void GOMP_parallel_loop_nonmonotonic_guided(void (*fn)(void*), void* d, unsigned nt, long s, long e, long i, long c, unsigned f) { vg_parallel_loop(fn, d, nt, s, e, i, c, f); }
void GOMP_parallel_loop_runtime(void (*fn)(void*), void* d, unsigned nt, long s, long e, long i, unsigned f) { vg_parallel_loop(fn, d, nt, s, e, i, 1, f); }
void GOMP_parallel_loop_nonmonotonic_runtime(void (*fn)(void*), void* d, unsigned nt, long s, long e, long i, unsigned f) { vg_parallel_loop(fn, d, nt, s, e, i, 1, f); }
void GOMP_parallel_loop_maybe_nonmonotonic_runtime(void (*fn)(void*), void* d, unsigned nt, long s, long e, long i, unsigned f) { vg_parallel_loop(fn, d, nt, s, e, i, 1, f); }
bool GOMP_loop_dynamic_next(long* s, long* e) { return vg_loop_next(s, e); }
bool GOMP_loop_nonmonotonic_dynamic_next(long* s, long* e) { return vg_loop_next(s, e); }
bool GOMP_loop_guided_next(long* s, long* e) { return vg_loop_next(s, e); }
bool GOMP_loop_nonmonotonic_guided_next(long* s, long* e) { return vg_loop_next(s, e); }
bool GOMP_loop_runtime_next(long* s, long* e) { return vg_loop_next(s, e); }
bool GOMP_loop_nonmonotonic_runtime_next(long* s, long* e) { return vg_loop_next(s, e); }
bool GOMP_loop_maybe_nonmonotonic_runtime_next(long* s, long* e) { return vg_loop_next(s, e); }
void GOMP_loop_end_nowait(void) {}

/* the non-combined form: every member calls GOMP_loop_*_start; the first to arrive at the k-th loop of the region sets it up */
static bool vg_loop_start(long start, long end, long incr, long chunk, long* istart, long* iend)
{
        struct vg_team* team = (g_on && self) ? top_team(self) : NULL;
        struct vg_task* it;
        if(!team){
                g_serial_loop.set = 1;
                g_serial_loop.next = start;
                g_serial_loop.end = end;
                g_serial_loop.incr = incr ? incr : 1;
                g_serial_loop.chunk = 1;
                return vg_loop_next(istart, iend);
        }
        for(it = self->cur; it && it->implicit_index < 0; it = it->parent){
        }
        if(it){
                it->loop_count++;
                if(it->loop_count > team->loop_id){
                        team->loop_id = it->loop_count;
                        team->lset = 1;
                        team->lnext = start;
                        team->lend = end;
                        team->lincr = incr ? incr : 1;
                        team->lchunk = chunk > 0 ? chunk : 1;
                }
        }
        return vg_loop_next(istart, iend);
}
bool GOMP_loop_dynamic_start(long s, long e, long i, long c, long* is, long* ie) { return vg_loop_start(s, e, i, c, is, ie); }
bool GOMP_loop_nonmonotonic_dynamic_start(long s, long e, long i, long c, long* is, long* ie) { return vg_loop_start(s, e, i, c, is, ie); }
bool GOMP_loop_guided_start(long s, long e, long i, long c, long* is, long* ie) { return vg_loop_start(s, e, i, c, is, ie); }
bool GOMP_loop_nonmonotonic_guided_start(long s, long e, long i, long c, long* is, long* ie) { return vg_loop_start(s, e, i, c, is, ie); }
bool GOMP_loop_runtime_start(long s, long e, long i, long* is, long* ie) { return vg_loop_start(s, e, i, 1, is, ie); }
bool GOMP_loop_nonmonotonic_runtime_start(long s, long e, long i, long* is, long* ie) { return vg_loop_start(s, e, i, 1, is, ie); }
bool GOMP_loop_maybe_nonmonotonic_runtime_start(long s, long e, long i, long* is, long* ie) { return vg_loop_start(s, e, i, 1, is, ie); }

/* Entry points kalign does not use today but a realistic edit might introduce. */

void GOMP_barrier(void)
{
        struct vg_strand* me = self;
        struct vg_team* team = (g_on && me) ? top_team(me) : NULL;
        int gen, i;
        if(!team || team->N == 1){
                return;
        }
        gen = team->barrier_gen;
        team->barrier_arrived++;
        if(team->barrier_arrived == team->N){
                team->barrier_arrived = 0;
                team->barrier_gen++;
                for(i = 0; i < g_nstrands; i++){
                        if(g_strands[i]->state == S_WAIT_BARRIER && top_team(g_strands[i]) == team){
                                g_strands[i]->state = S_READY_IDLE;
                        }
                }
                vg_point(VG_KIND_TSP);
                return;
        }
        while(team->barrier_gen == gen){
                me->state = S_WAIT_BARRIER;
                vg_point(VG_KIND_BLOCK);
        }
}

void GOMP_loop_end(void) { GOMP_barrier(); }

static void lock_acquire(int k)
{
        struct vg_strand* me = self;
        if(!g_on || !me){
                return;
        }
        if(g_nstrands > 1){
                vg_point(VG_KIND_YIELD);
        }
        while(g_lock_owner[k] != -1 && g_lock_owner[k] != me->id){
                me->state = S_WAIT_LOCK;
                me->lock_wanted = k;
                vg_point(VG_KIND_BLOCK);
        }
        g_lock_owner[k] = me->id;
}

static void lock_release(int k)
{
        if(!g_on || !self){
                return;
        }
        g_lock_owner[k] = -1;
        if(g_nstrands > 1){
                vg_point(VG_KIND_YIELD);
        }
}

void GOMP_critical_start(void) { lock_acquire(0); }
void GOMP_critical_end(void) { lock_release(0); }
void GOMP_critical_name_start(void** p) { (void)p; lock_acquire(2); }
void GOMP_critical_name_end(void** p) { (void)p; lock_release(2); }
void GOMP_atomic_start(void) { lock_acquire(1); }
void GOMP_atomic_end(void) { lock_release(1); }
