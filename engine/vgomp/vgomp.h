/* vgomp: a replacement for libgomp that owns the schedule.
   kalign's objects are compiled with -fopenmp but linked against this file instead of
   libgomp, so every thread/task interleaving is decided by a chooser callback. */
#ifndef VGOMP_H
#define VGOMP_H
#include <stdint.h>

#define VG_KIND_YIELD 0  /* running strand is mid-body (hook event, region begin): switching away is a preemption */
#define VG_KIND_TSP 1    /* OpenMP task scheduling point (task created, taskwait without wait): switching away is a preemption */
#define VG_KIND_BLOCK 2  /* running strand cannot continue (taskwait, barrier, end of task): free choice */

/* n >= 2 enabled strands, ids[0] is the running strand iff cur_enabled.  Returns index in [0,n). */
typedef int (*vg_chooser_fn)(void* ctx, int n, const int* ids, int cur_enabled, int kind);
/* called on deadlock / horizon; must not return */
typedef void (*vg_fatal_fn)(void* ctx, const char* what);

struct vg_config {
        vg_chooser_fn choose;
        vg_fatal_fn fatal;
        void* ctx;
        int nested;            /* 0: nested regions get a team of 1 (libgomp default); 1: they get the ICV */
        long horizon;          /* max scheduling points per execution */
        int lazy_idle;         /* 1: idle implicit tasks of a team whose single is claimed run only when nothing else can */
};

void vg_begin(const struct vg_config* cfg);   /* start of one controlled execution (calling thread = strand 0) */
void vg_end(void);                            /* end of it: all strands must be finished; frees everything */
void vg_yield(void);                          /* extra scheduling point (called from the hook) */
int vg_self_id(void);                         /* id of the running strand */
int vg_self_task(void);                       /* id of the running task */
long vg_points(void);                         /* scheduling points with >= 2 enabled strands so far */
long vg_steps(void);                          /* all scheduling points so far */
int vg_max_live(void);                        /* max number of simultaneously started-and-unfinished strands */
int vg_num_strands(void);
int vg_explicit_outstanding(void);                /* deferred explicit tasks created and not yet finished */
int vg_other_runnable_explicit(void);
#endif
