/* Self-test of vgomp + explorer on toy OpenMP programs with known schedule dependence.
   Build: gcc -fopenmp -c selftest.c; link WITHOUT -fopenmp against vgomp.o. */
#include <stdio.h>
#include <stdlib.h>
#include <string.h>
#include <omp.h>
#include "explore/explore.h"

static int toy;
static long result;
static int scratch;
static int cells[8];

static void body_correct(void)
{
        int i;
        memset(cells, 0, sizeof cells);
#pragma omp parallel
#pragma omp single nowait
        {
                for(i = 0; i < 4; i++){
#pragma omp task firstprivate(i) shared(cells)
                        {
                                vg_yield();
                                cells[i] = i + 1;
                                vg_yield();
                        }
                }
#pragma omp taskwait
                result = cells[0] + 10 * cells[1] + 100 * cells[2] + 1000 * cells[3];
        }
}

static void body_missing_taskwait(void)
{
        int i;
        memset(cells, 0, sizeof cells);
#pragma omp parallel
#pragma omp single nowait
        {
                for(i = 0; i < 2; i++){
#pragma omp task firstprivate(i) shared(cells)
                        cells[i] = i + 1;
                }
                result = cells[0] + 10 * cells[1];
        }
}

static void body_shared_scratch(void)
{
        int i;
        memset(cells, 0, sizeof cells);
#pragma omp parallel
#pragma omp single nowait
        {
                for(i = 0; i < 2; i++){
#pragma omp task firstprivate(i) shared(cells, scratch)
                        {
                                scratch = i + 1;
                                vg_yield();
                                cells[i] = scratch;
                        }
                }
#pragma omp taskwait
                result = cells[0] + 10 * cells[1];
        }
}

static void body_completion_order(void)
{
        int i;
        static int order[4];
        static int n;
        n = 0;
#pragma omp parallel
#pragma omp single nowait
        {
                for(i = 0; i < 3; i++){
#pragma omp task firstprivate(i) shared(order, n)
                        {
                                order[n++] = i;
                        }
                }
#pragma omp taskwait
                result = order[0] + 10 * order[1] + 100 * order[2];
        }
}

static void body_static_for(void)
{
        int i;
        memset(cells, 0, sizeof cells);
#pragma omp parallel for schedule(static)
        for(i = 0; i < 8; i++){
                vg_yield();
                cells[i] = 10 * omp_get_thread_num() + omp_get_num_threads();
        }
        result = 0;
        for(i = 0; i < 8; i++){
                result = result * 7 + cells[i];
        }
}

static void body_nested(void)
{
        memset(cells, 0, sizeof cells);
#pragma omp parallel
#pragma omp single nowait
        {
#pragma omp task shared(cells)
                {
#pragma omp parallel
#pragma omp single nowait
                        {
#pragma omp task shared(cells)
                                cells[0] = 1;
#pragma omp task shared(cells)
                                cells[1] = 2;
#pragma omp taskwait
                                cells[2] = cells[0] + cells[1];
                        }
                }
#pragma omp taskwait
                result = cells[2];
        }
}

/* dynamic schedule: every iteration runs exactly once, whoever takes the chunk; the sum is schedule independent */
static void body_dynamic_for(void)
{
        int i;
        memset(cells, 0, sizeof cells);
#pragma omp parallel for schedule(dynamic)
        for(i = 0; i < 8; i++){
                cells[i] += i + 1;
        }
        result = 0;
        for(i = 0; i < 8; i++){
                result = result * 11 + cells[i];
        }
}

/* taskloop: every iteration exactly once, all done when the construct ends */
static void body_taskloop(void)
{
        int i;
        memset(cells, 0, sizeof cells);
#pragma omp parallel
#pragma omp single nowait
        {
#pragma omp taskloop shared(cells)
                for(i = 0; i < 8; i++){
                        cells[i] += i + 1;
                }
                result = 0;
                for(i = 0; i < 8; i++){
                        result = result * 11 + cells[i];
                }
        }
}

/* taskloop whose iterations write each other's cells (mirror writes): the last writer depends on the schedule */
static void body_taskloop_mirror(void)
{
        int i;
        memset(cells, 0, sizeof cells);
#pragma omp parallel
#pragma omp single nowait
        {
#pragma omp taskloop shared(cells) num_tasks(4)
                for(i = 0; i < 4; i++){
                        vg_yield();
                        cells[i] = 10 + i;
                        cells[3 - i] = 20 + i;
                }
                result = 0;
                for(i = 0; i < 4; i++){
                        result = result * 31 + cells[i];
                }
        }
}

static long outcomes[64];
static int noutcomes;

static void fatal(void* ctx, const char* what)
{
        (void)ctx;
        fprintf(stdout, "FATAL %s in toy %d\n", what, toy);
        exit(3);
}

static int run(struct ex_state* ex, void* user)
{
        struct vg_config cfg = { ex_choose, fatal, ex, *(int*)user, 100000, ((int*)user)[2] };
        int i;
        omp_set_num_threads(((int*)user)[1]);
        vg_begin(&cfg);
        switch(toy){
        case 0: body_correct(); break;
        case 1: body_missing_taskwait(); break;
        case 2: body_shared_scratch(); break;
        case 3: body_completion_order(); break;
        case 4: body_static_for(); break;
        case 5: body_nested(); break;
        case 6: body_dynamic_for(); break;
        case 7: body_taskloop(); break;
        case 8: body_taskloop_mirror(); break;
        }
        vg_end();
        for(i = 0; i < noutcomes; i++){
                if(outcomes[i] == result){
                        return 0;
                }
        }
        if(noutcomes < 64){
                outcomes[noutcomes++] = result;
        }
        return 0;
}

int main(void)
{
        /* expected number of distinct outcomes: 1 = exactly one, 2 = at least two */
        static const int expect[9] = {1, 2, 2, 2, 1, 1, 1, 1, 2};
        int fails = 0;
        for(toy = 0; toy < 9; toy++){
                for(int N = 1; N <= 3; N++){
                        for(int nested = 0; nested < 2; nested++){
                                struct ex_state ex;
                                int user[3] = {nested, N, (N + nested) & 1};
                                memset(&ex, 0, sizeof ex);
                                ex.cost_mode = EX_COST_PREEMPTION;
                                ex.bound = (toy == 0 && N < 3) ? 2 : 1;
                                ex.nshards = 1;
                                ex.run = run;
                                ex.user = user;
                                noutcomes = 0;
                                ex_explore(&ex);
                                int ok;
                                if(toy == 4){
                                        ok = (noutcomes == 1);          /* per N one outcome */
                                }else if(expect[toy] == 1){
                                        ok = (noutcomes == 1);
                                }else{
                                        /* with one thread and eager parents the defect may still need a TSP switch */
                                        ok = (noutcomes >= 2) || (N == 1 && (toy == 2 || toy == 8));
                                }
                                printf("toy %d N=%d nested=%d executions=%ld maxpoints=%d outcomes=%d %s\n", toy, N, nested,
                                       ex.executions, ex.max_points, noutcomes, ok ? "ok" : "UNEXPECTED");
                                if(!ok){
                                        fails++;
                                }
                        }
                }
        }
        printf(fails ? "SELFTEST FAILED\n" : "SELFTEST OK\n");
        return fails ? 1 : 0;
}
