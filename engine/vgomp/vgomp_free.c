/* vgomp, free-running mode: the race pass.

   Same ABI as vgomp.c, but every implicit task and every deferred task is a real, concurrently
   running thread (one thread per task: the most concurrent execution OpenMP allows).  This file
   is compiled WITHOUT -fsanitize=thread and synchronises only with raw futexes and __atomic
   builtins, which ThreadSanitizer cannot see; the only happens-before edges the detector gets
   are the ones OpenMP guarantees:
       task creation  -> task start          pthread_create (intercepted by TSan)
       task end       -> parent's taskwait   __tsan_release(task) / __tsan_acquire(task)
       task end       -> end of the region   the same pair, taken by the master for every task of the team
       implicit task end -> end of region    pthread_join
   so an unordered conflicting access between two tasks is reported as a data race. */
#define _GNU_SOURCE
#include <pthread.h>
#include <stdlib.h>
#include <string.h>
#include <stdio.h>
#include <stdint.h>
#include <stdbool.h>
#include <unistd.h>
#include <limits.h>
#include <sys/syscall.h>
#include <linux/futex.h>

void __tsan_acquire(void* addr) __attribute__((weak));
void __tsan_release(void* addr) __attribute__((weak));

struct fr_task {
        struct fr_task* parent;
        struct fr_team* team;
        void (*fn)(void*);
        void* data;
        void* raw;
        struct fr_task* first_child;    /* children list (owned by the task itself: only it creates children) */
        struct fr_task* next_sibling;
        struct fr_task* next_in_team;
        int done;                       /* futex word */
        int implicit_index;
        int single_count;
        int loop_count;
};

struct fr_team {
        int N;
        int single_claimed;
        int lock;
        struct fr_task* tasks;          /* all explicit tasks of the team */
        int outstanding;                /* futex word: explicit tasks not finished */
        struct fr_team* outer;
        int lset;                       /* dynamic / guided / runtime work-sharing loop (not used by kalign today) */
        int loop_id;
        long lnext, lend, lincr, lchunk;
};

static int g_icv = 1;
static int g_nested = 0;
static __thread struct fr_task* cur_task = NULL;
static __thread struct fr_team* cur_team = NULL;
static int g_live_threads = 0;

static void fwait(int* addr, int val)
{
        syscall(SYS_futex, addr, FUTEX_WAIT_PRIVATE, val, NULL, NULL, 0);
}

static void fwake(int* addr)
{
        syscall(SYS_futex, addr, FUTEX_WAKE_PRIVATE, INT_MAX, NULL, NULL, 0);
}

static void lock(int* l)
{
        while(__atomic_exchange_n(l, 1, __ATOMIC_ACQUIRE)){
                while(__atomic_load_n(l, __ATOMIC_RELAXED)){
                        __builtin_ia32_pause();
                }
        }
}

static void unlock(int* l)
{
        __atomic_store_n(l, 0, __ATOMIC_RELEASE);
}

void vg_free_set_nested(int on) { g_nested = on; }

void omp_set_num_threads(int n) { if(n > 0){ g_icv = n; } }
int omp_get_max_threads(void) { return g_icv; }
int omp_get_num_threads(void) { return cur_team ? cur_team->N : 1; }
int omp_in_parallel(void) { return cur_team != NULL; }
double omp_get_wtime(void) { return 0.0; }
int omp_get_num_procs(void) { return 16; }

int omp_get_thread_num(void)
{
        struct fr_task* t;
        for(t = cur_task; t; t = t->parent){
                if(t->implicit_index >= 0){
                        return t->implicit_index;
                }
        }
        return 0;
}

struct implicit_arg {
        struct fr_task task;
        pthread_t th;
};

static void* implicit_main(void* a)
{
        struct implicit_arg* ia = a;
        cur_task = &ia->task;
        cur_team = ia->task.team;
        ia->task.fn(ia->task.data);
        return NULL;
}

static void make_thread(pthread_t* th, void* (*fn)(void*), void* arg, int detached)
{
        pthread_attr_t at;
        int tries = 0;
        pthread_attr_init(&at);
        pthread_attr_setstacksize(&at, 2u << 20);
        if(detached){
                pthread_attr_setdetachstate(&at, PTHREAD_CREATE_DETACHED);
        }
        while(pthread_create(th, &at, fn, arg) != 0){
                if(++tries > 2000){
                        fprintf(stderr, "vgomp_free: cannot create thread\n");
                        _exit(71);
                }
                usleep(1000);
        }
        pthread_attr_destroy(&at);
}

static __thread struct { int set; long next, end, incr, chunk; } g_pending_loop;

void GOMP_parallel(void (*fn)(void*), void* data, unsigned num_threads, unsigned flags)
{
        struct fr_team team;
        struct fr_task it0;
        struct fr_task* saved_task = cur_task;
        struct fr_team* saved_team = cur_team;
        struct implicit_arg* ia;
        struct fr_task* t;
        int N, i;
        (void)flags;
        if(cur_team){
                N = g_nested ? (num_threads ? (int)num_threads : g_icv) : 1;
        }else{
                N = num_threads ? (int)num_threads : g_icv;
        }
        if(N < 1){
                N = 1;
        }
        memset(&team, 0, sizeof team);
        team.N = N;
        team.outer = saved_team;
        if(g_pending_loop.set){
                team.lset = 1;
                team.lnext = g_pending_loop.next;
                team.lend = g_pending_loop.end;
                team.lincr = g_pending_loop.incr;
                team.lchunk = g_pending_loop.chunk;
                team.loop_id = 1 << 20;
                g_pending_loop.set = 0;
        }
        memset(&it0, 0, sizeof it0);
        it0.parent = saved_task;
        it0.team = &team;
        it0.implicit_index = 0;
        ia = calloc((size_t)N, sizeof *ia);
        for(i = 1; i < N; i++){
                ia[i].task.parent = saved_task;
                ia[i].task.team = &team;
                ia[i].task.implicit_index = i;
                ia[i].task.fn = fn;
                ia[i].task.data = data;
                make_thread(&ia[i].th, implicit_main, &ia[i], 0);
        }
        cur_task = &it0;
        cur_team = &team;
        fn(data);
        for(i = 1; i < N; i++){
                pthread_join(ia[i].th, NULL);
        }
        /* implicit barrier: every explicit task of the team has finished */
        for(;;){
                int o = __atomic_load_n(&team.outstanding, __ATOMIC_ACQUIRE);
                if(o == 0){
                        break;
                }
                fwait(&team.outstanding, o);
        }
        lock(&team.lock);
        t = team.tasks;
        team.tasks = NULL;
        unlock(&team.lock);
        while(t){
                struct fr_task* nx = t->next_in_team;
                if(__tsan_acquire){
                        __tsan_acquire(t);
                }
                free(t->raw);
                free(t);
                t = nx;
        }
        free(ia);
        cur_task = saved_task;
        cur_team = saved_team;
}

bool GOMP_single_start(void)
{
        struct fr_task* t;
        struct fr_team* team = cur_team;
        bool won = false;
        if(!team){
                return true;
        }
        for(t = cur_task; t && t->implicit_index < 0; t = t->parent){
        }
        if(!t){
                return true;
        }
        t->single_count++;
        lock(&team->lock);
        if(team->single_claimed < t->single_count){
                team->single_claimed = t->single_count;
                won = true;
        }
        unlock(&team->lock);
        return won;
}

static void* task_main(void* a)
{
        struct fr_task* t = a;
        struct fr_team* team = t->team;
        cur_task = t;
        cur_team = team;
        t->fn(t->data);
        if(__tsan_release){
                __tsan_release(t);
        }
        __atomic_store_n(&t->done, 1, __ATOMIC_RELEASE);
        fwake(&t->done);
        /* after this decrement the team (on the master's stack) may disappear */
        if(__atomic_sub_fetch(&team->outstanding, 1, __ATOMIC_ACQ_REL) == 0){
                fwake(&team->outstanding);
        }else{
                fwake(&team->outstanding);
        }
        __atomic_sub_fetch(&g_live_threads, 1, __ATOMIC_RELAXED);
        return NULL;
}

#define GOMP_TASK_FLAG_DEPEND (1 << 3)

void GOMP_task(void (*fn)(void*), void* data, void (*cpyfn)(void*, void*), long arg_size, long arg_align,
               bool if_clause, unsigned flags, void** depend, int priority, void* detach)
{
        struct fr_team* team = cur_team;
        struct fr_task* t;
        char* raw;
        char* buf;
        pthread_t th;
        (void)depend; (void)priority; (void)detach;
        if(arg_align < 1){
                arg_align = 1;
        }
        raw = malloc((size_t)(arg_size + arg_align + 16));
        buf = (char*)(((uintptr_t)raw + (uintptr_t)arg_align - 1) / (uintptr_t)arg_align * (uintptr_t)arg_align);
        if(cpyfn){
                cpyfn(buf, data);
        }else if(arg_size){
                memcpy(buf, data, (size_t)arg_size);
        }
        if(!team || !if_clause || (flags & GOMP_TASK_FLAG_DEPEND)){
                struct fr_task ut;
                struct fr_task* saved = cur_task;
                memset(&ut, 0, sizeof ut);
                ut.parent = saved;
                ut.team = team;
                ut.implicit_index = -1;
                cur_task = &ut;
                fn(buf);
                /* children of an undeferred task that are still running keep a pointer to it: wait for them */
                for(t = ut.first_child; t; t = t->next_sibling){
                        while(!__atomic_load_n(&t->done, __ATOMIC_ACQUIRE)){
                                fwait(&t->done, 0);
                        }
                }
                cur_task = saved;
                free(raw);
                return;
        }
        t = calloc(1, sizeof *t);
        t->parent = cur_task;
        t->team = team;
        t->fn = fn;
        t->data = buf;
        t->raw = raw;
        t->implicit_index = -1;
        t->next_sibling = cur_task->first_child;
        cur_task->first_child = t;
        lock(&team->lock);
        t->next_in_team = team->tasks;
        team->tasks = t;
        unlock(&team->lock);
        __atomic_add_fetch(&team->outstanding, 1, __ATOMIC_ACQ_REL);
        /* keep the number of live threads reasonable */
        while(__atomic_load_n(&g_live_threads, __ATOMIC_RELAXED) > 3000){
                usleep(200);
        }
        __atomic_add_fetch(&g_live_threads, 1, __ATOMIC_RELAXED);
        make_thread(&th, task_main, t, 1);
}

void GOMP_taskwait(void)
{
        struct fr_task* me = cur_task;
        struct fr_task* t;
        if(!me){
                return;
        }
        for(t = me->first_child; t; t = t->next_sibling){
                while(!__atomic_load_n(&t->done, __ATOMIC_ACQUIRE)){
                        fwait(&t->done, 0);
                }
                if(__tsan_acquire){
                        __tsan_acquire(t);
                }
        }
        /* records stay on the team list (freed at the end of the region); forget them as children */
        me->first_child = NULL;
}

void GOMP_taskyield(void) {}

/* taskloop (not used by kalign today; a realistic edit might introduce it): the iteration space is cut into chunks, one deferred
   task per chunk, followed - unless nogroup is given - by a wait for the tasks created (implemented as a taskwait: waits for every
   child of the encountering task, which is at least what the implicit taskgroup waits for here) */
#define VG_TASK_FLAG_UP (1 << 8)
#define VG_TASK_FLAG_GRAINSIZE (1 << 9)
#define VG_TASK_FLAG_IF (1 << 10)
#define VG_TASK_FLAG_NOGROUP (1 << 11)
void GOMP_taskloop(void (*fn)(void*), void* data, void (*cpyfn)(void*, void*), long arg_size, long arg_align, unsigned flags,
                   unsigned long num_tasks, int priority, long start, long end, long step)
{
        unsigned long n, ntasks, k, each, extra;
        long s;
        char* raw;
        char* buf;
        (void)priority;
        if(flags & VG_TASK_FLAG_UP){
                if(end <= start){
                        return;
                }
                n = (unsigned long)((end - start + step - 1) / step);
        }else{
                if(end >= start){
                        return;
                }
                n = (unsigned long)((start - end - step - 1) / -step);
        }
        if(arg_align < 1){
                arg_align = 1;
        }
        if(flags & VG_TASK_FLAG_GRAINSIZE){
                ntasks = num_tasks ? n / num_tasks : n;
        }else{
                ntasks = num_tasks ? num_tasks : (unsigned long)omp_get_num_threads();
        }
        if(ntasks < 1){
                ntasks = 1;
        }
        if(ntasks > n){
                ntasks = n;
        }
        each = n / ntasks;
        extra = n % ntasks;
        raw = malloc((size_t)arg_size + (size_t)arg_align + 16);
        buf = (char*)(((uintptr_t)raw + (uintptr_t)arg_align - 1) / (uintptr_t)arg_align * (uintptr_t)arg_align);
        s = start;
        for(k = 0; k < ntasks; k++){
                long cnt = (long)(each + (k < extra ? 1 : 0));
                long e = s + cnt * step;
                if(cpyfn){
                        cpyfn(buf, data);
                }else if(arg_size){
                        memcpy(buf, data, (size_t)arg_size);
                }
                ((long*)buf)[0] = s;
                ((long*)buf)[1] = e;
                GOMP_task(fn, buf, NULL, arg_size, arg_align, true, 0, NULL, 0, NULL);
                s = e;
        }
        free(raw);
        if(!(flags & VG_TASK_FLAG_NOGROUP)){
                GOMP_taskwait();
        }
}


static bool fr_loop_next(long* istart, long* iend)
{
        struct fr_team* team = cur_team;
        long n, e;
        bool ok = false;
        if(!team || !team->lset){
                return false;
        }
        lock(&team->lock);
        n = team->lnext;
        if(!(team->lincr > 0 ? n >= team->lend : n <= team->lend)){
                e = n + team->lchunk * team->lincr;
                if(team->lincr > 0 ? e > team->lend : e < team->lend){
                        e = team->lend;
                }
                team->lnext = e;
                *istart = n;
                *iend = e;
                ok = true;
        }
        unlock(&team->lock);
        return ok;
}

static void fr_parallel_loop(void (*fn)(void*), void* data, unsigned num_threads, long start, long end, long incr, long chunk, unsigned flags)
{
        g_pending_loop.set = 1;
        g_pending_loop.next = start;
        g_pending_loop.end = end;
        g_pending_loop.incr = incr ? incr : 1;
        g_pending_loop.chunk = chunk > 0 ? chunk : 1;
        GOMP_parallel(fn, data, num_threads, flags);
}

void GOMP_parallel_loop_dynamic(void (*fn)(void*), void* d, unsigned nt, long s, long e, long i, long c, unsigned f) { fr_parallel_loop(fn, d, nt, s, e, i, c, f); }
void GOMP_parallel_loop_nonmonotonic_dynamic(void (*fn)(void*), void* d, unsigned nt, long s, long e, long i, long c, unsigned f) { fr_parallel_loop(fn, d, nt, s, e, i, c, f); }
void GOMP_parallel_loop_guided(void (*fn)(void*), void* d, unsigned nt, long s, long e, long i, long c, unsigned f) { fr_parallel_loop(fn, d, nt, s, e, i, c, f); }
void GOMP_parallel_loop_nonmonotonic_guided(void (*fn)(void*), void* d, unsigned nt, long s, long e, long i, long c, unsigned f) { fr_parallel_loop(fn, d, nt, s, e, i, c, f); }
void GOMP_parallel_loop_runtime(void (*fn)(void*), void* d, unsigned nt, long s, long e, long i, unsigned f) { fr_parallel_loop(fn, d, nt, s, e, i, 1, f); }
void GOMP_parallel_loop_nonmonotonic_runtime(void (*fn)(void*), void* d, unsigned nt, long s, long e, long i, unsigned f) { fr_parallel_loop(fn, d, nt, s, e, i, 1, f); }
void GOMP_parallel_loop_maybe_nonmonotonic_runtime(void (*fn)(void*), void* d, unsigned nt, long s, long e, long i, unsigned f) { fr_parallel_loop(fn, d, nt, s, e, i, 1, f); }
bool GOMP_loop_dynamic_next(long* s, long* e) { return fr_loop_next(s, e); }
bool GOMP_loop_nonmonotonic_dynamic_next(long* s, long* e) { return fr_loop_next(s, e); }
bool GOMP_loop_guided_next(long* s, long* e) { return fr_loop_next(s, e); }
bool GOMP_loop_nonmonotonic_guided_next(long* s, long* e) { return fr_loop_next(s, e); }
bool GOMP_loop_runtime_next(long* s, long* e) { return fr_loop_next(s, e); }
bool GOMP_loop_nonmonotonic_runtime_next(long* s, long* e) { return fr_loop_next(s, e); }
bool GOMP_loop_maybe_nonmonotonic_runtime_next(long* s, long* e) { return fr_loop_next(s, e); }
void GOMP_loop_end_nowait(void) {}

static bool fr_loop_start(long start, long end, long incr, long chunk, long* istart, long* iend)
{
        struct fr_team* team = cur_team;
        struct fr_task* it;
        if(!team){
                if(incr > 0 ? start >= end : start <= end){
                        return false;
                }
                *istart = start;
                *iend = end;
                return true;
        }
        for(it = cur_task; it && it->implicit_index < 0; it = it->parent){
        }
        if(it){
                it->loop_count++;
                lock(&team->lock);
                if(it->loop_count > team->loop_id){
                        team->loop_id = it->loop_count;
                        team->lset = 1;
                        team->lnext = start;
                        team->lend = end;
                        team->lincr = incr ? incr : 1;
                        team->lchunk = chunk > 0 ? chunk : 1;
                }
                unlock(&team->lock);
        }
        return fr_loop_next(istart, iend);
}
bool GOMP_loop_dynamic_start(long s, long e, long i, long c, long* is, long* ie) { return fr_loop_start(s, e, i, c, is, ie); }
bool GOMP_loop_nonmonotonic_dynamic_start(long s, long e, long i, long c, long* is, long* ie) { return fr_loop_start(s, e, i, c, is, ie); }
bool GOMP_loop_guided_start(long s, long e, long i, long c, long* is, long* ie) { return fr_loop_start(s, e, i, c, is, ie); }
bool GOMP_loop_nonmonotonic_guided_start(long s, long e, long i, long c, long* is, long* ie) { return fr_loop_start(s, e, i, c, is, ie); }
bool GOMP_loop_runtime_start(long s, long e, long i, long* is, long* ie) { return fr_loop_start(s, e, i, 1, is, ie); }
bool GOMP_loop_nonmonotonic_runtime_start(long s, long e, long i, long* is, long* ie) { return fr_loop_start(s, e, i, 1, is, ie); }
bool GOMP_loop_maybe_nonmonotonic_runtime_start(long s, long e, long i, long* is, long* ie) { return fr_loop_start(s, e, i, 1, is, ie); }

/* constructs kalign does not use today; provided so that an edited tree still links.
   critical/atomic are real mutual exclusion AND, as in OpenMP, synchronisation TSan may see. */
static pthread_mutex_t g_crit = PTHREAD_MUTEX_INITIALIZER;
static pthread_mutex_t g_atomic = PTHREAD_MUTEX_INITIALIZER;
void GOMP_critical_start(void) { pthread_mutex_lock(&g_crit); }
void GOMP_critical_end(void) { pthread_mutex_unlock(&g_crit); }
void GOMP_critical_name_start(void** p) { (void)p; pthread_mutex_lock(&g_crit); }
void GOMP_critical_name_end(void** p) { (void)p; pthread_mutex_unlock(&g_crit); }
void GOMP_atomic_start(void) { pthread_mutex_lock(&g_atomic); }
void GOMP_atomic_end(void) { pthread_mutex_unlock(&g_atomic); }

/* no-op stand-ins so that harness code written for the controlled mode links */
struct vg_config;
void vg_begin(const struct vg_config* cfg) { (void)cfg; }
void vg_end(void) {}
void vg_yield(void) {}
int vg_self_id(void) { return 0; }
int vg_self_task(void) { return 0; }
long vg_points(void) { return 0; }
long vg_steps(void) { return 0; }
int vg_max_live(void) { return 0; }
int vg_num_strands(void) { return 0; }
int vg_explicit_outstanding(void) { return 0; }
int vg_other_runnable_explicit(void) { return 0; }
