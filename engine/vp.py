"""Shared driver code: shard running, failure triage, known findings, evidence."""
import json, os, re, subprocess, sys, time, hashlib, glob
from concurrent.futures import ThreadPoolExecutor

VERIF = os.path.dirname(os.path.dirname(os.path.abspath(__file__)))
sys.path.insert(0, os.path.join(VERIF, "engine"))
import build

NCPU = min(16, os.cpu_count() or 1)
ASAN_ENV = {
    "ASAN_OPTIONS": "detect_leaks=1:abort_on_error=0:exitcode=66:allocator_may_return_null=1:detect_stack_use_after_return=0:print_summary=1",
    "UBSAN_OPTIONS": "print_stacktrace=1:halt_on_error=1:exitcode=67",
    "LSAN_OPTIONS": "exitcode=77:print_suppressions=0",
    "TSAN_OPTIONS": "exitcode=66:halt_on_error=0:report_signal_unsafe=0",
}


def env():
    e = dict(os.environ)
    e.update(ASAN_ENV)
    e.setdefault("VERIF_SEED", "0")
    e["OMP_WAIT_POLICY"] = "passive"      # real-libgomp legs: 16 shards x n threads must not spin
    e["GOMP_SPINCOUNT"] = "0"
    return e


class Result:
    def __init__(self):
        self.counters = {}
        self.samples = []
        self.failures = []      # dicts: id, sig, text
        self.errors = []        # infrastructure errors
        self.raw_crashes = []

    def add_counter(self, k, v):
        self.counters[k] = self.counters.get(k, 0) + v


FRAME_RE = re.compile(r"#\d+ 0x[0-9a-f]+ in (\S+) (\S+)")


def crash_signature(how, report):
    """kind@function from the first sanitizer report whose frame is in /repo."""
    kind = None
    text = "\n".join(report)
    m = re.search(r"ERROR: AddressSanitizer: ([A-Za-z0-9_-]+)", text)
    if m:
        kind = "asan:" + m.group(1)
        if "attempting double-free" in text:
            kind = "asan:double-free"
    m2 = re.search(r"runtime error: (.*)", text)
    if kind is None and m2:
        msg = m2.group(1)
        for key, name in (("null pointer", "null-deref"), ("out of bounds", "index-out-of-bounds"),
                          ("signed integer overflow", "signed-overflow"), ("shift", "shift"),
                          ("misaligned", "misaligned"), ("not a valid value", "invalid-value"),
                          ("outside the range", "float-cast-overflow"), ("division by zero", "div-by-zero"),
                          ("applying", "pointer-overflow"), ("member access", "null-deref")):
            if key in msg:
                kind = "ubsan:" + name
                break
        else:
            kind = "ubsan:other"
    vg = re.search(r"(Conditional jump or move depends on uninitialised value|Use of uninitialised value|Syscall param \S+ (?:points to|contains) uninitialised|Invalid (?:read|write) of size)", text)
    if kind is None and vg:
        kind = "valgrind:uninit" if "ninitialised" in vg.group(1) else "valgrind:invalid-access"
        func = "?"
        for fm in re.finditer(r"(?:at|by) 0x[0-9A-Fa-f]+: (\S+) \(([A-Za-z0-9_]+\.c):\d+\)", text):
            if os.path.exists(os.path.join("/repo/lib/src", fm.group(2))) or os.path.exists(os.path.join("/repo/src", fm.group(2))):
                func = fm.group(1)
                break
        return "%s@%s" % (kind, func)
    if kind is None and "LeakSanitizer" in text:
        kind = "leak"
    if kind is None and "ThreadSanitizer" in text:
        kind = "tsan:data-race"
    if kind is None:
        kind = how.replace(":", "-")
        if how == "timeout":
            return "timeout"
    func = "?"
    for line in report:
        fm = FRAME_RE.search(line)
        if fm and ("/repo/" in fm.group(2)):
            func = fm.group(1)
            break
    if func == "?" and kind == "leak":
        for line in report:
            fm = FRAME_RE.search(line)
            if fm and "/repo/" in fm.group(2):
                func = fm.group(1)
                break
    if func == "?":
        m3 = re.search(r"^(/repo/\S+?):(\d+):\d+: runtime error", text, re.M)
        if m3:
            func = os.path.basename(m3.group(1))
    return "%s@%s" % (kind, func)


def parse_protocol(text, res):
    lines = text.split("\n")
    i = 0
    while i < len(lines):
        ln = lines[i]
        if ln.startswith("S "):
            p = ln.split(" ")
            if len(p) >= 3:
                try:
                    res.add_counter(p[1], int(p[2]))
                except ValueError:
                    pass
        elif ln.startswith("X "):
            res.samples.append(ln[2:])
        elif ln.startswith("F "):
            p = ln.split(" ", 3)
            res.failures.append({"id": int(p[1]), "sig": p[2], "text": p[3] if len(p) > 3 else ""})
        elif ln.startswith("C "):
            p = ln.split(" ")
            rep = []
            i += 1
            while i < len(lines) and lines[i] != ".":
                if lines[i].startswith("| "):
                    rep.append(lines[i][2:])
                i += 1
            sig = crash_signature(p[2], rep)
            res.failures.append({"id": int(p[1]), "sig": sig, "text": " / ".join(rep[:6])[:600], "crash": True})
        elif ln.startswith("E "):
            res.errors.append(ln[2:])
        i += 1


def run_shards(exe, args, nshards=NCPU, timeout=None, extra_env=None, pin=False, wrapper=None):
    """Runs exe --shard i --nshards n for every shard in parallel; returns a Result."""
    res = Result()
    e = env()
    if extra_env:
        e.update(extra_env)

    def one(i):
        cmd = (wrapper or []) + [exe] + args + ["--shard", str(i), "--nshards", str(nshards)]
        if pin:
            cmd = ["taskset", "-c", str(i % NCPU)] + cmd
        try:
            r = subprocess.run(cmd, stdout=subprocess.PIPE, stderr=subprocess.PIPE, env=e, timeout=timeout)
            return i, r.returncode, r.stdout.decode("latin-1"), r.stderr.decode("latin-1")
        except subprocess.TimeoutExpired as ex:
            return i, -999, (ex.stdout or b"").decode("latin-1"), "shard timeout"

    with ThreadPoolExecutor(nshards) as ex:
        for i, rc, out, err in ex.map(one, range(nshards)):
            parse_protocol(out, res)
            if rc != 0:
                res.errors.append("shard %d of %s exited %s: %s" % (i, os.path.basename(exe), rc, err[-400:]))
    cleanup_scratch()
    return res


def run_one_shard(exe, args, shard, nshards=NCPU, timeout=3600, extra_env=None, wrapper=None, upto=None):
    """Re-runs one shard exactly as run_shards did (same batches, same order), optionally only up to case id `upto`."""
    res = Result()
    e = env()
    if extra_env:
        e.update(extra_env)
    cmd = (wrapper or []) + [exe] + args + ["--shard", str(shard), "--nshards", str(nshards)]
    if upto is not None:
        cmd += ["--to", str(upto + 1)]
    try:
        r = subprocess.run(cmd, stdout=subprocess.PIPE, stderr=subprocess.PIPE, env=e, timeout=timeout)
        parse_protocol(r.stdout.decode("latin-1"), res)
    except subprocess.TimeoutExpired:
        pass
    cleanup_scratch()
    return res


def cleanup_scratch():
    """removes scratch directories of harness processes that no longer exist (killed on timeout)"""
    import glob, shutil
    for d in glob.glob("/dev/shm/vh-*") + glob.glob("/var/tmp/vh-*"):
        m = re.search(r"-(\d+)$", d)
        if m and not os.path.exists("/proc/" + m.group(1)):
            shutil.rmtree(d, ignore_errors=True)


def run_single(exe, args, case_id, timeout=3600, wrapper=None):
    """One case alone.  The harness applies its own per-case limit (alarm) and reports "timeout" itself; the limit here is
    only a backstop and also counts as a timeout of the case."""
    res = Result()
    try:
        r = subprocess.run((wrapper or []) + [exe] + args + ["--case", str(case_id)], stdout=subprocess.PIPE, stderr=subprocess.PIPE,
                           env=env(), timeout=timeout)
    except subprocess.TimeoutExpired:
        res.failures.append({"id": case_id, "sig": "timeout", "text": "no result within %d s when run alone" % timeout, "crash": True})
        return res
    parse_protocol(r.stdout.decode("latin-1"), res)
    return res


# ---------------------------------------------------------------- known findings

def load_known():
    known, fixed = [], []
    p = os.path.join(VERIF, "known_findings.txt")
    if os.path.exists(p):
        for ln in open(p):
            ln = ln.strip()
            if ln.startswith("known:"):
                m = re.match(r"known:\s+property=(\S+)\s+sig=(\S+)\s+(.*)", ln)
                if m:
                    known.append({"property": m.group(1), "sig": m.group(2), "what": m.group(3)})
            elif ln.startswith("fixed:"):
                fixed.append(ln)
    return known, fixed


def triage(prop, failures, confirm):
    """Groups failures by signature; confirms one representative per signature by re-running it alone
    (confirm(case_id) -> list of sigs observed); splits into known findings and violations."""
    known, _ = load_known()
    by_sig = {}
    for f in failures:
        by_sig.setdefault(f["sig"], []).append(f)
    violations, knowns, flaky = [], [], []
    for sig, fl in sorted(by_sig.items()):
        fl.sort(key=lambda f: f["id"])
        rep = fl[0]
        k = [x for x in known if x["property"] == prop and x["sig"] == sig]
        if k:
            knowns.append({"sig": sig, "what": k[0]["what"], "count": len(fl), "example": rep})
            continue
        ok = False
        if confirm is None:
            ok = True
        else:
            for cand in fl[:3]:
                sigs = confirm(cand["id"])
                if sig in sigs:
                    rep = cand
                    ok = True
                    break
        if ok:
            violations.append({"sig": sig, "count": len(fl), "example": rep})
        else:
            flaky.append({"sig": sig, "count": len(fl), "example": rep})
    return violations, knowns, flaky


def write_replay(prop, sig, example, replay_cmd):
    os.makedirs(os.path.join(VERIF, "replays"), exist_ok=True)
    safe = re.sub(r"[^A-Za-z0-9_.@-]", "_", sig)[:60]
    path = os.path.join(VERIF, "replays", "%s-%s-%s.json" % (prop, safe, example.get("id", 0)))
    json.dump({"property": prop, "sig": sig, "case_id": example.get("id"), "text": example.get("text"),
               "replay_cmd": replay_cmd, "extra": example.get("extra")}, open(path, "w"), indent=1)
    return path


def write_evidence(prop, tier, level, coverage, wall, violations, assumptions, extra=None):
    os.makedirs(os.path.join(VERIF, "evidence"), exist_ok=True)
    ev = {"property_id": prop, "tier": tier, "seed": int(os.environ.get("VERIF_SEED", "0") or 0), "level": level,
          "coverage": coverage, "assumptions": assumptions, "wall_s": round(wall, 2), "violations": violations}
    if extra:
        ev.update(extra)
    tmp = os.path.join(VERIF, "evidence", prop + ".json.tmp")
    json.dump(ev, open(tmp, "w"), indent=1)
    os.replace(tmp, os.path.join(VERIF, "evidence", prop + ".json"))


def finish(prop, tier, t0, res_list, violations, knowns, flaky, coverage, assumptions, level="model_checking", replay_fmt=None):
    """Prints the verdict lines, writes evidence, returns the exit status."""
    status = 0
    errors = [e for r in res_list for e in r.errors]
    for k in knowns:
        print("KNOWN-FINDING: property=%s %s [sig=%s, %d case(s), e.g. %s]" % (prop, k["what"], k["sig"], k["count"],
                                                                          k["example"].get("text", "")[:200]))
    for v in violations:
        cmd = (replay_fmt or "bin/check %s --replay {path}" % prop)
        path = write_replay(prop, v["sig"], v["example"], cmd)
        print("VIOLATION property=%s replay=%s" % (prop, path))
        print("  sig=%s cases=%d: %s" % (v["sig"], v["count"], v["example"].get("text", "")[:500]))
        status = 1
    for f in flaky:
        print("ERROR: failure not reproducible when replayed alone (not reported as violation): sig=%s %s" %
              (f["sig"], f["example"].get("text", "")[:300]))
        status = max(status, 2)
    for e in errors[:10]:
        print("ERROR: " + e)
        status = max(status, 2)
    if violations:
        status = 1      # a confirmed violation decides the verdict, whatever else went wrong beside it
    coverage = dict(coverage)
    coverage["known_findings_matched"] = [{"sig": k["sig"], "cases": k["count"]} for k in knowns]
    if errors or flaky:
        coverage["infrastructure_errors"] = errors[:10] + ["flaky:" + f["sig"] for f in flaky]
    write_evidence(prop, tier, level, coverage, time.time() - t0, len(violations), assumptions)
    return status
