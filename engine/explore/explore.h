/* Stateless, deviation-bounded depth-first exploration of the choice points of vgomp.
   One execution = one complete run of the harness body under a choice list (prefix), with
   the default policy after the prefix.  See DESIGN.md section 2.2. */
#ifndef EXPLORE_H
#define EXPLORE_H
#include <stdint.h>
#include <stdio.h>
#include <stdlib.h>
#include <string.h>
#include <time.h>
#include "vgomp/vgomp.h"

#define EX_COST_PREEMPTION 0   /* switching away from a still-enabled strand costs 1; free choices are all explored */
#define EX_COST_DEPARTURE 1    /* every departure from the default policy costs 1 */

#define EX_POLICY_FIFO 0       /* running strand continues, else lowest id (parent first, FIFO pick) */
#define EX_POLICY_LIFO 1       /* running strand continues, else highest id (parent first, LIFO pick) */
#define EX_POLICY_CHILD 2      /* at a task scheduling point start the newest strand (child first), else as FIFO */
#define EX_POLICY_HIGH 3       /* always the highest id enabled (maximal switching) */
#define EX_NPOLICY 4

struct ex_point {
        uint16_t n;
        uint16_t chosen;
        uint16_t dflt;
        uint8_t cur_enabled;
        uint8_t kind;
        uint32_t desc;          /* hash of the enabled list: replay divergence check */
};

struct ex_state {
        /* configuration */
        int cost_mode;
        int policy;
        int bound;
        int shard, nshards;
        long max_exec;          /* cap on executions per shard (0 = none); hitting it clears `complete` */
        double deadline;        /* CLOCK_MONOTONIC seconds; 0 = none */
        /* the execution being run */
        const uint16_t* prefix;
        int plen;
        struct ex_point* pts;
        int npts, cap;
        /* statistics */
        long executions;
        long points_total;
        long pruned_by_bound;
        int complete;
        int max_points;
        int divergence;
        long ordinal;
        /* callbacks */
        int (*run)(struct ex_state* ex, void* user);   /* runs one execution; returns 0 ok, !=0 violation */
        void* user;
        int stop;               /* set by run() to end the search (violation found) */
        uint16_t* fail_choices;
        int fail_n;
};

static inline uint32_t ex_hash_ids(int n, const int* ids, int kind)
{
        uint32_t h = 2166136261u ^ (uint32_t)kind;
        for(int i = 0; i < n; i++){
                h = (h ^ (uint32_t)ids[i]) * 16777619u;
        }
        return h;
}

static int ex_default_choice(int policy, int n, const int* ids, int cur_enabled, int kind)
{
        switch(policy){
        case EX_POLICY_LIFO:
                return cur_enabled ? 0 : n - 1;
        case EX_POLICY_CHILD:
                if(kind == VG_KIND_TSP){
                        return n - 1;
                }
                return 0;
        case EX_POLICY_HIGH:
                return n - 1;
        default:
                return 0;
        }
        (void)ids;
}

/* the vgomp chooser */
static int ex_choose(void* ctx, int n, const int* ids, int cur_enabled, int kind)
{
        struct ex_state* ex = ctx;
        struct ex_point* p;
        int c;
        int d = ex_default_choice(ex->policy, n, ids, cur_enabled, kind);
        if(ex->npts == ex->cap){
                ex->cap = ex->cap ? ex->cap * 2 : 256;
                ex->pts = realloc(ex->pts, sizeof(*ex->pts) * ex->cap);
        }
        if(ex->npts < ex->plen){
                c = ex->prefix[ex->npts];
                if(c >= n){
                        ex->divergence = 1;
                        c = d;
                }
        }else{
                c = d;
        }
        p = &ex->pts[ex->npts++];
        p->n = (uint16_t)n;
        p->chosen = (uint16_t)c;
        p->dflt = (uint16_t)d;
        p->cur_enabled = (uint8_t)cur_enabled;
        p->kind = (uint8_t)kind;
        p->desc = ex_hash_ids(n, ids, kind);
        return c;
}

static inline int ex_choice_cost(const struct ex_state* ex, const struct ex_point* p, int choice)
{
        if(ex->cost_mode == EX_COST_DEPARTURE){
                return choice != p->dflt;
        }
        return p->cur_enabled && choice != 0;
}

static double ex_now(void)
{
        struct timespec ts;
        clock_gettime(CLOCK_MONOTONIC, &ts);
        return (double)ts.tv_sec + 1e-9 * (double)ts.tv_nsec;
}

static void ex_explore_rec(struct ex_state* ex, const uint16_t* prefix, int plen, int depth)
{
        struct ex_point* pts;
        int npts, i, alt, cost;
        uint16_t* np;

        if(ex->stop){
                return;
        }
        if((ex->max_exec && ex->executions >= ex->max_exec) || (ex->deadline > 0 && ex_now() > ex->deadline)){
                ex->complete = 0;
                return;
        }
        ex->prefix = prefix;
        ex->plen = plen;
        ex->npts = 0;
        ex->divergence = 0;
        ex->executions++;
        if(ex->run(ex, ex->user) != 0 || ex->divergence){
                /* violation (or divergence, which the caller treats as a hard error) */
                ex->fail_n = ex->npts;
                ex->fail_choices = malloc(sizeof(uint16_t) * (ex->npts + 1));
                for(i = 0; i < ex->npts; i++){
                        ex->fail_choices[i] = ex->pts[i].chosen;
                }
                ex->stop = 1;
                return;
        }
        npts = ex->npts;
        ex->points_total += npts;
        if(npts > ex->max_points){
                ex->max_points = npts;
        }
        pts = malloc(sizeof(*pts) * (npts + 1));
        memcpy(pts, ex->pts, sizeof(*pts) * npts);
        np = malloc(sizeof(uint16_t) * (npts + 1));
        cost = 0;
        for(i = 0; i < npts; i++){
                np[i] = pts[i].chosen;
        }
        for(i = 0; i < npts && !ex->stop; i++){
                if(i >= plen){
                        for(alt = 0; alt < pts[i].n && !ex->stop; alt++){
                                int c2;
                                if(alt == pts[i].chosen){
                                        continue;
                                }
                                c2 = cost + ex_choice_cost(ex, &pts[i], alt);
                                if(c2 > ex->bound){
                                        ex->pruned_by_bound++;
                                        continue;
                                }
                                if(depth == 0 && ex->nshards > 1){
                                        /* first-level subtrees are dealt round-robin to the shards */
                                        if((ex->ordinal++ % ex->nshards) != ex->shard){
                                                continue;
                                        }
                                }
                                np[i] = (uint16_t)alt;
                                ex_explore_rec(ex, np, i + 1, depth + 1);
                                np[i] = pts[i].chosen;
                        }
                }
                cost += ex_choice_cost(ex, &pts[i], pts[i].chosen);
        }
        free(np);
        free(pts);
}

static void ex_explore(struct ex_state* ex)
{
        ex->complete = 1;
        ex->executions = 0;
        ex->points_total = 0;
        ex->pruned_by_bound = 0;
        ex->stop = 0;
        ex->max_points = 0;
        ex->ordinal = 0;
        ex_explore_rec(ex, NULL, 0, 0);
        if(ex->nshards > 1 && ex->shard != 0 && ex->executions > 0){
                ex->executions--;      /* the root execution is counted by shard 0 only */
        }
}
#endif
