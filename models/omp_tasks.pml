/* Promela model of (a) the tasking rules as vgomp implements them (strands, per-team concurrency cap,
   task scheduling points, taskwait, end-of-region barrier) and (b) kalign's task protocol for one run on
   fewer than 100 short sequences: region A (static distance loop), region B (parallel + single: guide tree),
   region C (parallel + single: recursive_aln = task per internal child, taskwait, merge).
   Compile-time parameters:  -DNTHREADS=1|2|3   -DSHAPE=0 (3 leaves, chain) | 1 (4 leaves, balanced) | 2 (4 leaves, caterpillar)

   Exactly one strand runs at a time (variable turn); at every scheduling point the running strand hands the
   turn to a nondeterministically chosen enabled strand.  So every path of the model is one schedule (choice
   list) of the implementation; the history variable hist[] keeps different paths in different states, which
   makes the number of paths countable: every path ends with the c_code line that prints PATH and the order of
   the merge events.  Checked by assertions: a merge never starts before its internal children are merged;
   no deadlock (pan's invalid end state check). */

#ifndef NTHREADS
#define NTHREADS 2
#endif
#ifndef SHAPE
#define SHAPE 1
#endif

#define MAXS 16         /* strands */
#define NONE 255

/* strand states */
#define S_FREE 0        /* slot not yet created */
#define S_NEW 1
#define S_RUNNING 2
#define S_READY_ACTIVE 3
#define S_READY_IDLE 4
#define S_WAIT_CHILDREN 5
#define S_WAIT_TEAM 6
#define S_DONE 7

/* roles */
#define R_MAIN 0
#define R_IMPL 1        /* implicit task i>0 of a region */
#define R_TASK 2        /* deferred merge task */

byte st[MAXS];
byte role[MAXS];
byte arg[MAXS];         /* R_IMPL: region (0,1,2); R_TASK: node index */
byte counted[MAXS];
byte parent[MAXS];      /* strand executing the parent task (R_TASK) */
byte children[MAXS];    /* outstanding children of the task the strand currently executes */
byte nstr = 1;
byte turn = 0;
byte onthr = 0;        /* strands of the current team on a thread (regions are sequential: one team at a time) */
byte unfinished = 0;
byte single_claimed = 0;
byte region = 0;
byte master_waiting = 0;
byte nx;                /* scratch of choose_next (only one strand runs at a time) */
byte ri;

/* guide tree: internal nodes 0..NNODES-1, root = NNODES-1; kid[c][k] = internal child or NONE */
#if SHAPE == 0
#define NNODES 2
#elif SHAPE == 1
#define NNODES 3
#else
#define NNODES 3
#endif
byte kidA[NNODES];
byte kidB[NNODES];
bool merged[NNODES];

byte hist[64];
byte hlen = 0;
byte ev[16];            /* merge event order: 2*c = begin, 2*c+1 = end */
byte nev = 0;

inline release(s) {
        if
        :: counted[s] -> counted[s] = 0; onthr--
        :: else -> skip
        fi
}

inline acquire(s) {
        if
        :: !counted[s] -> counted[s] = 1; onthr++
        :: else -> skip
        fi
}

#define ENABLED(s) (st[s] == S_READY_ACTIVE || ((st[s] == S_NEW || st[s] == S_READY_IDLE) && onthr < NTHREADS))

/* hand the turn on: nondeterministic choice among the enabled strands */
inline choose_next() {
        nx = 0;
        if
        :: ENABLED(0) -> nx = 0
        :: ENABLED(1) -> nx = 1
        :: ENABLED(2) -> nx = 2
        :: ENABLED(3) -> nx = 3
        :: ENABLED(4) -> nx = 4
        :: ENABLED(5) -> nx = 5
        :: ENABLED(6) -> nx = 6
        :: ENABLED(7) -> nx = 7
        :: ENABLED(8) -> nx = 8
        :: ENABLED(9) -> nx = 9
        :: ENABLED(10) -> nx = 10
        :: ENABLED(11) -> nx = 11
        :: ENABLED(12) -> nx = 12
        :: ENABLED(13) -> nx = 13
        :: ENABLED(14) -> nx = 14
        :: ENABLED(15) -> nx = 15
        fi;
        acquire(nx);
        st[nx] = S_RUNNING;
        hist[hlen] = nx; hlen++;
        turn = nx
}

/* scheduling points */
inline point_yield(me) { st[me] = S_READY_ACTIVE; choose_next() }
inline point_tsp(me)   { st[me] = S_READY_IDLE; release(me); choose_next() }
inline point_block(me) { release(me); choose_next() }

inline new_strand(r, a, par) {
        st[nstr] = S_NEW; role[nstr] = r; arg[nstr] = a; parent[nstr] = par; counted[nstr] = 0; children[nstr] = 0;
        nstr++
}

/* GOMP_parallel as the master executes it (the body follows inline in the caller) */
inline region_begin(me, reg) {
        region = reg; single_claimed = 0; unfinished = 0; onthr = 1; counted[me] = 1;
        ri = 1;
        do
        :: ri < NTHREADS -> new_strand(R_IMPL, reg, NONE); unfinished++; ri++
        :: else -> break
        od;
        if
        :: NTHREADS > 1 -> point_yield(me); (turn == me)
        :: else -> skip
        fi
}

inline region_end(me) {
        if
        :: unfinished > 0 -> st[me] = S_WAIT_TEAM; master_waiting = 1; point_block(me); (turn == me); master_waiting = 0
        :: else -> skip
        fi
}

inline member_finished() {
        unfinished--;
        if
        :: unfinished == 0 && master_waiting && st[0] == S_WAIT_TEAM -> st[0] = S_READY_IDLE
        :: else -> skip
        fi
}

/* recursive_aln(c) executed by strand me: task per internal child, taskwait, merge */
inline recursive_aln(me, c) {
        if
        :: kidA[c] != NONE -> new_strand(R_TASK, kidA[c], me); children[me]++; unfinished++; point_tsp(me); (turn == me)
        :: else -> skip
        fi;
        if
        :: kidB[c] != NONE -> new_strand(R_TASK, kidB[c], me); children[me]++; unfinished++; point_tsp(me); (turn == me)
        :: else -> skip
        fi;
        /* taskwait */
        if
        :: children[me] > 0 -> st[me] = S_WAIT_CHILDREN; point_block(me); (turn == me)
        :: children[me] == 0 && nstr > 1 -> point_tsp(me); (turn == me)
        :: else -> skip
        fi;
        /* do_align: the merge */
        assert(kidA[c] == NONE || merged[kidA[c]]);
        assert(kidB[c] == NONE || merged[kidB[c]]);
        ev[nev] = 2 * c; nev++;
        ev[nev] = 2 * c + 1; nev++;
        merged[c] = true
}

proctype strand(byte me)
{
        /* wait to be created and scheduled for the first time (a slot that is never used stays here: valid end state) */
end_unused:
        (turn == me && st[me] == S_RUNNING);
        if
        :: role[me] == R_IMPL ->
                /* region A: a share of the static loop; regions B, C: `single`: the first implicit task to run claims it */
                if
                :: arg[me] == 2 && single_claimed == 0 -> single_claimed = 1; recursive_aln(me, NNODES - 1)
                :: arg[me] == 1 && single_claimed == 0 -> single_claimed = 1
                :: else -> skip
                fi;
                atomic { member_finished(); st[me] = S_DONE };
                point_block(me)
        :: role[me] == R_TASK ->
                recursive_aln(me, arg[me]);
                /* task end */
                atomic {
                        children[parent[me]]--;
                        if
                        :: children[parent[me]] == 0 && st[parent[me]] == S_WAIT_CHILDREN -> st[parent[me]] = S_READY_IDLE
                        :: else -> skip
                        fi;
                        member_finished(); st[me] = S_DONE
                };
                point_block(me)
        fi
}

init {
        byte k;
        atomic {
#if SHAPE == 0
                kidA[0] = NONE; kidB[0] = NONE; kidA[1] = 0; kidB[1] = NONE;
#elif SHAPE == 1
                kidA[0] = NONE; kidB[0] = NONE; kidA[1] = NONE; kidB[1] = NONE; kidA[2] = 0; kidB[2] = 1;
#else
                kidA[0] = NONE; kidB[0] = NONE; kidA[1] = 0; kidB[1] = NONE; kidA[2] = 1; kidB[2] = NONE;
#endif
                st[0] = S_RUNNING; role[0] = R_MAIN; counted[0] = 1;
                k = 1;
                do
                :: k < MAXS -> run strand(k); k++
                :: else -> break
                od
        };
        /* region A: static distance loop (no scheduling point inside the loop body) */
        region_begin(0, 0);
        region_end(0);
        /* region B: parallel + single nowait: guide tree */
        region_begin(0, 1);
        if
        :: single_claimed == 0 -> single_claimed = 1
        :: else -> skip
        fi;
        region_end(0);
        /* region C: parallel + single nowait: recursive_aln(root) */
        region_begin(0, 2);
        if
        :: single_claimed == 0 -> single_claimed = 1; recursive_aln(0, NNODES - 1)
        :: else -> skip
        fi;
        region_end(0);
        assert(merged[NNODES - 1]);
        c_code {
                int i;
                printf("PATH ");
                for(i = 0; i < now.nev; i++){ printf("%d.", now.ev[i]); }
                printf(" H");
                for(i = 0; i < now.hlen; i++){ printf("%d.", now.hist[i]); }
                printf("\n");
        }
}
