/* C08 - identical sequences are aligned without gaps. */
#include "vh.h"
#include "kx.h"
#include "shapes.h"

const char* vh_property = "C08";

#ifndef C08_THREADS
#define C08_THREADS 1
#endif
static const int THREADS[] = {1, 2, 3, 16};
static const int COPIES[] = {2, 3, 4, 5};
static const int DNA_T[] = {KALIGN_TYPE_DNA, KALIGN_TYPE_DNA_INTERNAL, KALIGN_TYPE_RNA, KALIGN_TYPE_UNDEFINED};
static const int PROT_T[] = {KALIGN_TYPE_PROTEIN, KALIGN_TYPE_PROTEIN_DIVERGENT, KALIGN_TYPE_UNDEFINED};
static const char* DNA_A = "ACNRU";
static const char* PROT_A = "LKXBZ";

static const int SLEN[] = {1, 59, 60, 61, 499, 500, 501, 1024, 5000};
static const int SCOP[] = {2, 3, 99, 100, 101, 257, 500};
#define NSTRUCT 7       /* all-N, all-X, period 1,2,3, random dna, random protein */

static int maxlen(int tier) { return tier ? 7 : 5; }
static uint64_t nsmall(int tier)
{
        uint64_t S = kx_count_strings(5, 1, maxlen(tier));
        return S * 4 * 4 + S * 4 * 3;
}
static int nthreads_axis(void) { return C08_THREADS > 1 ? 3 : 1; }

/* repeats: every ordered pair of distinct letters of ACGTU (and of LKWDE) as a period-2 repeat, every period-3 repeat xxy,
   at lengths 60 / 120 / 500 with 2 and 5 copies, under every type constant of the kind */
static const char* RNUC = "ACGTU";
static const char* RPRO = "LKWDE";
#define NREP_PAT (20 + 20)      /* ordered pairs xy: period 2 (xy) and period 3 (xxy) */
static const int RLEN[] = {60, 120, 500};
static uint64_t nrepeat(void) { return (uint64_t)NREP_PAT * 3 * 2 * (4 + 3); }

uint64_t vh_total(int tier)
{
        return (nsmall(tier) + (uint64_t)(9 * 7 * NSTRUCT) + nrepeat()) * (uint64_t)nthreads_axis();
}

struct icase { char* s; int copies; int type; int threads; int structured; int skip; };

static void decode(uint64_t id, int tier, struct icase* c)
{
        uint64_t S = kx_count_strings(5, 1, maxlen(tier));
        int ta = (int)(id % (uint64_t)nthreads_axis());
        id /= (uint64_t)nthreads_axis();
        c->threads = C08_THREADS > 1 ? THREADS[1 + ta] : 1;
        c->skip = 0;
        c->structured = 0;
        if(id < nsmall(tier)){
                int protein = id >= S * 16;
                char buf[16];
                if(protein){
                        id -= S * 16;
                        c->type = PROT_T[id % 3];
                        id /= 3;
                }else{
                        c->type = DNA_T[id % 4];
                        id /= 4;
                }
                c->copies = COPIES[id % 4];
                id /= 4;
                kx_nth_string(id, protein ? PROT_A : DNA_A, 1, maxlen(tier), buf);
                c->s = strdup(buf);
        }else if(id >= nsmall(tier) + (uint64_t)(9 * 7 * NSTRUCT)){
                int ty, protein, pat, cp, len, i, x, y, per3;
                id -= nsmall(tier) + (uint64_t)(9 * 7 * NSTRUCT);
                ty = (int)(id % 7);
                id /= 7;
                protein = ty >= 4;
                c->type = protein ? PROT_T[ty - 4] : DNA_T[ty];
                cp = (int)(id % 2);
                id /= 2;
                len = RLEN[id % 3];
                id /= 3;
                pat = (int)id;
                per3 = pat >= 20;
                pat %= 20;
                x = pat / 4;
                y = pat % 4;
                if(y >= x){
                        y++;
                }
                c->copies = cp ? 5 : 2;
                c->s = malloc((size_t)len + 1);
                for(i = 0; i < len; i++){
                        int second = per3 ? (i % 3 == 2) : (i % 2 == 1);
                        c->s[i] = (protein ? RPRO : RNUC)[second ? y : x];
                }
                c->s[len] = 0;
                c->structured = 2;
        }else{
                int k, li, ci, len, i;
                uint64_t st = 0x5151 + (uint64_t)vh_seed;
                double budget = tier ? 4e9 : 4e8;
                id -= nsmall(tier);
                k = (int)(id % NSTRUCT);
                id /= NSTRUCT;
                ci = (int)(id % 7);
                li = (int)(id / 7);
                len = SLEN[li];
                c->copies = SCOP[ci];
                c->structured = 1;
                c->type = KALIGN_TYPE_UNDEFINED;
                c->s = malloc((size_t)len + 1);
                for(i = 0; i < len; i++){
                        switch(k){
                        case 0: c->s[i] = 'N'; break;
                        case 1: c->s[i] = 'X'; break;
                        case 2: c->s[i] = 'A'; break;
                        case 3: c->s[i] = "AC"[i % 2]; break;
                        case 4: c->s[i] = "LKW"[i % 3]; break;
                        case 5: c->s[i] = "ACGT"[sh_rng(&st) % 4]; break;
                        default: c->s[i] = "LKWAVDEGSTPQ"[sh_rng(&st) % 12]; break;
                        }
                }
                c->s[len] = 0;
                if((double)len * (double)len * (double)c->copies > budget){
                        c->skip = 1;
                }
        }
}

void vh_describe(uint64_t id, int tier, char* buf, size_t n)
{
        struct icase c;
        decode(id, tier, &c);
        if(strlen(c.s) <= 40){
                snprintf(buf, n, "%d copies of \"%s\" type=%s threads=%d", c.copies, c.s, kx_type_name(c.type), c.threads);
        }else{
                snprintf(buf, n, "%d copies of a %d-residue string starting \"%.12s\" type=%s threads=%d%s", c.copies, (int)strlen(c.s), c.s,
                         kx_type_name(c.type), c.threads, c.skip ? " (beyond the size budget of this tier: skipped)" : "");
        }
        free(c.s);
}

int vh_case(uint64_t id, int tier)
{
        struct icase c;
        char** seq;
        int* len;
        char** rows = NULL;
        int alen = 0, i, rc, l;
        decode(id, tier, &c);
        if(c.skip){
                free(c.s);
                vh_count("beyond_size_budget");
                return VH_SKIP;
        }
        l = (int)strlen(c.s);
        seq = malloc(sizeof(char*) * (size_t)c.copies);
        len = malloc(sizeof(int) * (size_t)c.copies);
        for(i = 0; i < c.copies; i++){
                seq[i] = c.s;
                len[i] = l;
        }
        if(c.structured == 1){
                /* clean runs of the largest cases take well under a minute; the limit leaves room for a loaded machine */
                vh_case_timeout = tier ? 1500 : 300;
                alarm((unsigned)vh_case_timeout);
        }
        rc = kalign(seq, len, c.copies, c.threads, c.type, -1.0f, -1.0f, -1.0f, &rows, &alen);
        if(rc != OK){
                if(c.type == KALIGN_TYPE_UNDEFINED){
                        vh_fail("sem:identical-rejected", "kalign() fails on identical sequences with the default type");
                }else{
                        vh_count("type_not_admissible_for_detected_kind");
                        free(seq); free(len); free(c.s);
                        return VH_SKIP;
                }
        }else{
                for(i = 0; i < c.copies; i++){
                        if(alen != l || strcmp(rows[i], c.s) != 0){
                                vh_fail(strchr(rows[i], '-') ? "sem:gap-in-identical" : "sem:row-changed", "row %d of %d is \"%.60s\" (alignment length %d, sequence length %d)",
                                        i, c.copies, rows[i], alen, l);
                                break;
                        }
                }
                kx_free_rows(rows, c.copies);
                if(l >= 2){
                        vh_count("nontrivial_len_ge_2");
                }
                if(c.copies >= 100){
                        vh_count("kmeans_path_cases");
                }
                if(l >= 500){
                        vh_count("parallel_hirschberg_size_cases");
                }
        }
        free(seq);
        free(len);
        free(c.s);
        return VH_OK;
}
