/* C05, uninitialised-memory leg: a small enumerator that runs INSIDE valgrind (memcheck); after every case the
   number of errors memcheck has reported is read through a client request, so a report is attributed to the case. */
#include "vh.h"
#include "kx.h"
#include "shapes.h"
#include <valgrind/valgrind.h>
#include <valgrind/memcheck.h>

const char* vh_property = "C05";

/* sections: (1) array API on all pairs/triples over {A,C} up to length 2 x types (equal lengths: order by name);
             (2) token strings of <= 3 tokens as files; (3) shapes: 2 x ~520 columns (parallel Hirschberg switch), 101 sequences (k-means), protein with U/X/J, msf/clustal output */
static const char* TOK[] = {">", "A", "c", "X", "-", " ", "\n", "U", "CLUSTAL W\n", " MSF: 1 Type: N Check: 0 ..\n", " Name: a Len: 1\n", "//\n"};
#define NTOK 12
#define N1 (6 * 6 * 7 * 2)
static uint64_t n2(void) { return NTOK + NTOK * NTOK + NTOK * NTOK * NTOK; }
#define N3 8

uint64_t vh_total(int tier) { (void)tier; return N1 + n2() + N3; }

void vh_describe(uint64_t id, int tier, char* buf, size_t n)
{
        (void)tier;
        if(id < N1){
                snprintf(buf, n, "array API, small tuple #%llu", (unsigned long long)id);
        }else if(id < N1 + n2()){
                snprintf(buf, n, "token-string file #%llu", (unsigned long long)(id - N1));
        }else{
                snprintf(buf, n, "shape %llu (0/1: 2x520 columns 1/4 threads, 2: 101 sequences, 3: protein with U X J, 4-6: written as msf/clu/fasta, 7: aligned input)", (unsigned long long)(id - N1 - n2()));
        }
}

static void pipeline_file(const char* txt, size_t len, const char* fmt)
{
        const char* path = vh_tmp("vg.in");
        const char* out = vh_tmp("vg.out");
        struct msa* m = NULL;
        vh_write_file(path, txt, len);
        if(kalign_read_input((char*)path, &m, 1) == OK && m){
                if(kalign_run(m, 1, KALIGN_TYPE_UNDEFINED, -1, -1, -1) == OK){
                        kalign_write_msa(m, (char*)out, (char*)fmt);
                }
        }
        if(m){
                kalign_free_msa(m);
        }
}

int vh_case(uint64_t id, int tier)
{
        unsigned before = VALGRIND_COUNT_ERRORS;
        (void)tier;
        vh_count("library_calls");
        if(id < N1){
                static const int TY[2] = {KALIGN_TYPE_UNDEFINED, KALIGN_TYPE_DNA_INTERNAL};
                char a[4], b[4], c[4];
                struct kx_set in;
                char** rows = NULL;
                int alen = 0, k = 2 + (int)((id / 72) % 2) * 0;
                uint64_t x = id;
                int ty = TY[x % 2];
                x /= 2;
                kx_nth_string(x % 6, "AC", 1, 2, a);
                x /= 6;
                kx_nth_string(x % 6, "AC", 1, 2, b);
                x /= 6;
                kx_set_init(&in);
                kx_set_add(&in, a, "");
                kx_set_add(&in, b, "");
                if(x > 0){
                        kx_nth_string(x - 1, "AC", 1, 2, c);
                        kx_set_add(&in, c, "");
                }
                (void)k;
                if(kx_kalign_arr(&in, 1, ty, -1, -1, -1, &rows, &alen) == OK){
                        kx_free_rows(rows, in.n);
                }
                kx_set_free(&in);
        }else if(id < N1 + n2()){
                uint64_t x = id - N1, p = NTOK;
                int d = 1, i, tk[3];
                char txt[256];
                size_t o = 0;
                while(x >= p){
                        x -= p;
                        p *= NTOK;
                        d++;
                }
                for(i = d - 1; i >= 0; i--){
                        tk[i] = (int)(x % NTOK);
                        x /= NTOK;
                }
                for(i = 0; i < d; i++){
                        o += (size_t)sprintf(txt + o, "%s", TOK[tk[i]]);
                }
                pipeline_file(txt, o, "fasta");
        }else{
                int k = (int)(id - N1 - n2());
                static char a[2048], b[2048];
                uint64_t st = 77;
                vh_case_timeout = 300;
                alarm(300);
                if(k <= 1){
                        char* seq[2] = {a, b};
                        int len[2];
                        char** rows = NULL;
                        int alen = 0;
                        sh_random_seq(&st, "ACGT", 520, a);
                        sh_derive(&st, "ACGT", a, 520, 515, b);
                        len[0] = 520;
                        len[1] = (int)strlen(b);
                        if(kalign(seq, len, 2, k ? 4 : 1, KALIGN_TYPE_UNDEFINED, -1, -1, -1, &rows, &alen) == OK){
                                kx_free_rows(rows, 2);
                        }
                }else if(k == 2){
                        struct kx_set in;
                        char* txt;
                        shapes_build(sh_npairs(0) + 4, 0, 0, &in);     /* 101 sequences */
                        txt = kx_fasta_text(&in, 0);
                        pipeline_file(txt, strlen(txt), "fasta");
                        free(txt);
                        kx_set_free(&in);
                }else if(k == 3){
                        const char* t = ">p1\nLKWUDELXKW\n>p2\nLKWDJELKW\n>p3\nLKUDELKWO\n";
                        pipeline_file(t, strlen(t), "msf");
                }else if(k <= 6){
                        const char* t = ">d1\nACGTACGTTG\n>d2\nACGACGTTG\n>d3\nACGTACTTG\n";
                        pipeline_file(t, strlen(t), k == 4 ? "msf" : (k == 5 ? "clu" : "fasta"));
                }else{
                        const char* t = ">d1\nACGT-ACGTTG\n>d2\nACG--ACGTTG\n>d3\nACGTTAC-TTG\n";
                        pipeline_file(t, strlen(t), "clu");
                }
        }
        if(VALGRIND_COUNT_ERRORS > before){
                /* die so that the driver attributes memcheck's report to this case: memcheck writes to a per-process
                   log file (--log-file=/dev/shm/vg-c05-%p.log); copy it to stderr, which the driver collects */
                char lp[64];
                char* rep;
                size_t rl = 0;
                snprintf(lp, sizeof lp, "/dev/shm/vg-c05-%d.log", (int)getpid());
                rep = vh_read_file(lp, &rl);
                if(rep){
                        if(write(2, rep, rl > 6000 ? 6000 : rl) < 0){
                        }
                }
                _exit(88);
        }
        return VH_OK;
}
