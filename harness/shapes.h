/* The finite "large shapes" family: deterministic sequence sets whose lengths and counts
   straddle the thresholds of the code (60-column blocks, 100 sequences, 256/512 buffer
   growth, 500 columns, 1024 lines).  VERIF_SEED only selects the base strings. */
#ifndef SHAPES_H
#define SHAPES_H
#include "kx.h"

static const int SH_LEN_QUICK[] = {1, 2, 60, 61, 255, 256, 257, 499, 500, 501, 1200};
static const int SH_LEN_THOROUGH[] = {1, 2, 59, 60, 61, 254, 255, 256, 499, 500, 501, 511, 512, 513, 1200, 2100};
static const int SH_CNT_QUICK[] = {99, 100, 101, 513};
static const int SH_CNT_THOROUGH[] = {3, 99, 100, 101, 300, 511, 512, 513, 1025};
static const int SH_RATIO[][2] = {{1, 1000}, {2, 2000}, {1, 5000}, {3, 3000}};

static uint64_t sh_rng(uint64_t* s)
{
        *s = *s * 6364136223846793005ULL + 1442695040888963407ULL;
        return *s >> 33;
}

static void sh_random_seq(uint64_t* st, const char* alpha, int len, char* out)
{
        int sigma = (int)strlen(alpha), i;
        for(i = 0; i < len; i++){
                out[i] = alpha[sh_rng(st) % (uint64_t)sigma];
        }
        out[len] = 0;
}

/* derived sequence: copy of base[0..len) with a few substitutions, one deletion and one insertion */
static void sh_derive(uint64_t* st, const char* alpha, const char* base, int baselen, int len, char* out)
{
        int sigma = (int)strlen(alpha), i, o = 0;
        int del_at = len > 8 ? (int)(sh_rng(st) % (uint64_t)len) : -1;
        for(i = 0; o < len; i++){
                char ch = (i < baselen) ? base[i] : alpha[sh_rng(st) % (uint64_t)sigma];
                if(i == del_at){
                        continue;
                }
                if(sh_rng(st) % 23 == 0){
                        ch = alpha[sh_rng(st) % (uint64_t)sigma];
                }
                out[o++] = ch;
        }
        out[o] = 0;
}

static int sh_npairs(int tier)
{
        int n = tier ? (int)(sizeof SH_LEN_THOROUGH / sizeof(int)) : (int)(sizeof SH_LEN_QUICK / sizeof(int));
        return n * (n + 1) / 2;
}

static int sh_ncnt(int tier)
{
        return tier ? (int)(sizeof SH_CNT_THOROUGH / sizeof(int)) : (int)(sizeof SH_CNT_QUICK / sizeof(int));
}

/* many exact copies of one sequence plus a few unrelated ones (k-means cannot tell the copies apart: the halving fallback runs on
   sets of odd and even size) */
static const int SH_DUPMIX[][2] = {{147, 3}, {147, 3}, {101, 3}, {202, 1}, {128, 2}, {255, 4}, {301, 2}, {175, 5}};
#define SH_NDUPMIX 8
/* a tight family of 130 related sequences plus one long unrelated outlier (k-means splits off a cluster of exactly one sequence) */
#define SH_NOUTLIER 4
static uint64_t shapes_count(int tier)
{
        return (uint64_t)sh_npairs(tier) + (uint64_t)sh_ncnt(tier) * 2 + (tier ? 4 : 2) + SH_NDUPMIX + SH_NOUTLIER;
}

static const char* shapes_name(int idx, int tier)
{
        static char buf[96];
        int np = sh_npairs(tier), nc = sh_ncnt(tier);
        const int* LEN = tier ? SH_LEN_THOROUGH : SH_LEN_QUICK;
        int nl = tier ? (int)(sizeof SH_LEN_THOROUGH / sizeof(int)) : (int)(sizeof SH_LEN_QUICK / sizeof(int));
        if(idx < np){
                int a = 0, k = idx;
                while(k >= nl - a){
                        k -= nl - a;
                        a++;
                }
                snprintf(buf, sizeof buf, "pair %dx%d %s", LEN[a], LEN[a + k], (idx & 1) ? "protein" : "dna");
        }else if(idx < np + 2 * nc){
                int k = idx - np;
                const int* CNT = tier ? SH_CNT_THOROUGH : SH_CNT_QUICK;
                snprintf(buf, sizeof buf, "%d sequences %s", CNT[k / 2], (k & 1) ? "protein" : "dna");
        }else if(idx >= np + 2 * nc + (tier ? 4 : 2) + SH_NDUPMIX){
                int k = idx - np - 2 * nc - (tier ? 4 : 2) - SH_NDUPMIX;
                snprintf(buf, sizeof buf, "130 related sequences + one long outlier (%s, outlier %s)", (k & 1) ? "protein" : "dna", (k & 2) ? "last" : "first");
        }else if(idx >= np + 2 * nc + (tier ? 4 : 2)){
                int k = idx - np - 2 * nc - (tier ? 4 : 2);
                snprintf(buf, sizeof buf, "%d copies + %d others", SH_DUPMIX[k][0], SH_DUPMIX[k][1]);
        }else{
                int k = idx - np - 2 * nc;
                snprintf(buf, sizeof buf, "ratio %d:%d", SH_RATIO[k][0], SH_RATIO[k][1]);
        }
        return buf;
}

static void shapes_build(int idx, int tier, long seed, struct kx_set* out)
{
        int np = sh_npairs(tier), nc = sh_ncnt(tier);
        const int* LEN = tier ? SH_LEN_THOROUGH : SH_LEN_QUICK;
        int nl = tier ? (int)(sizeof SH_LEN_THOROUGH / sizeof(int)) : (int)(sizeof SH_LEN_QUICK / sizeof(int));
        uint64_t st = 0x9E3779B97F4A7C15ULL ^ ((uint64_t)seed * 1000003ULL) ^ ((uint64_t)idx << 20);
        static char base[8192], tmp[8192];
        kx_set_init(out);
        if(idx < np){
                int a = 0, k = idx;
                const char* alpha = (idx & 1) ? "LKWAVDEG" : "ACGT";
                while(k >= nl - a){
                        k -= nl - a;
                        a++;
                }
                sh_random_seq(&st, alpha, LEN[a + k], base);
                kx_set_add(out, base, "long");
                sh_derive(&st, alpha, base, LEN[a + k], LEN[a], tmp);
                kx_set_add(out, tmp, "short");
        }else if(idx < np + 2 * nc){
                int k = idx - np;
                const int* CNT = tier ? SH_CNT_THOROUGH : SH_CNT_QUICK;
                int n = CNT[k / 2], i;
                const char* alpha = (k & 1) ? "LKWAVDEG" : "ACGT";
                char bases[5][64];
                for(i = 0; i < 5; i++){
                        sh_random_seq(&st, alpha, 24 + 3 * i, bases[i]);
                }
                for(i = 0; i < n; i++){
                        char nm[32];
                        int b = i % 5;
                        snprintf(nm, sizeof nm, "q%04d", i);
                        if(i % 7 == 3){
                                kx_set_add(out, bases[b], nm);  /* exact duplicates */
                        }else{
                                sh_derive(&st, alpha, bases[b], (int)strlen(bases[b]), (int)strlen(bases[b]) - (i % 4), tmp);
                                kx_set_add(out, tmp, nm);
                        }
                }
        }else if(idx >= np + 2 * nc + (tier ? 4 : 2) + SH_NDUPMIX){
                int k = idx - np - 2 * nc - (tier ? 4 : 2) - SH_NDUPMIX, i;
                const char* alpha = (k & 1) ? "LKAVDEGSTN" : "ACG";
                const char* oalpha = (k & 1) ? "WC" : "T";
                static char out1[400];
                sh_random_seq(&st, alpha, 120, base);
                sh_random_seq(&st, oalpha, 300, out1);
                if(!(k & 2)){
                        kx_set_add(out, out1, "outlier");
                }
                for(i = 0; i < 130; i++){
                        char nm[32];
                        snprintf(nm, sizeof nm, "fam%03d", i);
                        sh_derive(&st, alpha, base, 120, 120 - (i % 3), tmp);
                        kx_set_add(out, tmp, nm);
                }
                if(k & 2){
                        kx_set_add(out, out1, "outlier");
                }
        }else if(idx >= np + 2 * nc + (tier ? 4 : 2)){
                int k = idx - np - 2 * nc - (tier ? 4 : 2), i;
                const char* alpha = (k & 1) ? "LKWAVDEG" : "ACGT";
                int total = SH_DUPMIX[k][0] + SH_DUPMIX[k][1], len = (k % 3 == 1) ? 60 : 30;
                sh_random_seq(&st, alpha, len, base);
                for(i = 0; i < total; i++){
                        char nm[32];
                        int other;
                        snprintf(nm, sizeof nm, "d%04d", i);
                        /* the others: copies of one unrelated sequence of the same length, at the end (k even) or spread through
                           the copies (k odd: every 40th record until they are used up) */
                        other = (k & 1) ? (i % 40 == 7 && i / 40 < SH_DUPMIX[k][1]) : (i >= SH_DUPMIX[k][0]);
                        if(other){
                                uint64_t s3 = 0xABCDEF + (uint64_t)k;
                                sh_random_seq(&s3, alpha, len, tmp);
                                kx_set_add(out, tmp, nm);
                        }else{
                                kx_set_add(out, base, nm);
                        }
                }
        }else{
                int k = idx - np - 2 * nc;
                sh_random_seq(&st, "ACGT", SH_RATIO[k][1], base);
                kx_set_add(out, base, "huge");
                sh_random_seq(&st, "ACGT", SH_RATIO[k][0], tmp);
                kx_set_add(out, tmp, "tiny");
                memcpy(tmp, base + 17, 40);
                tmp[40] = 0;
                kx_set_add(out, tmp, "piece");
        }
}

/* Tie family for the exact-distance shortcut of bpm_block (the shorter sequence is cut to its first 1024 residues): sequences of
   about 1060 residues that share their first 1030; the edit distance of every pair is then 0 and only the length term orders
   the pairs: sequences of equal length tie exactly, copies are not necessarily joined first, and the tails (small indels) give
   the groups different gap patterns.  Three exact copies + five relatives; variant k = (protein, layout of the copies among the
   eight records (4), length change of each relative in {-1, 0, +1} (3^5)) */
#define SH_NTIE_EQ (2 * 56 * 4)   /* all eight of equal length: every pair ties; every choice of 3 of the 8 records as the copies */
#define SH_NTIE (SH_NTIE_EQ + 243)
static void sh_tie_build_scaled(int k, int plen, struct kx_set* out)
{
        static char P[1200], tmp[1200];
        int eq = k < SH_NTIE_EQ;
        int protein = eq ? (k & 1) : 1, layout = eq ? (k >> 1) % 56 : ((k - SH_NTIE_EQ) * 5) % 56;
        int ms = eq ? (k >> 1) / 56 : 0;
        int mult = 1 + (ms & 1), shift = (ms >> 1) * 3, dl = eq ? 0 : k - SH_NTIE_EQ, i, nx = 0;
        const char* alpha = protein ? "LKWAVDEGSTNQRHFYMICP" : "ACGT";
        int sigma = (int)strlen(alpha);
        uint64_t st = 0x71E5 + (uint64_t)(k & 7);
        int WHERE[3] = {0, 1, 2};
        {
                /* layout-th 3-subset of {0..7} in lexicographic order */
                int a0, a1, a2, c = 0;
                for(a0 = 0; a0 < 8; a0++){
                        for(a1 = a0 + 1; a1 < 8; a1++){
                                for(a2 = a1 + 1; a2 < 8; a2++, c++){
                                        if(c == layout){
                                                WHERE[0] = a0;
                                                WHERE[1] = a1;
                                                WHERE[2] = a2;
                                        }
                                }
                        }
                }
        }
        kx_set_init(out);
        sh_random_seq(&st, alpha, plen + 30, P);
        for(i = 0; i < 8; i++){
                int copy = (i == WHERE[0] || i == WHERE[1] || i == WHERE[2]);
                strcpy(tmp, P);
                if(!copy && eq){
                        /* a run of five equal residues inserted in the tail, the end cut by five: same length as the copies */
                        int ins = plen + 3 + 3 * ((nx * mult + shift) % 7), q;
                        memmove(tmp + ins + 5, tmp + ins, strlen(tmp + ins) + 1);
                        for(q = 0; q < 5; q++){
                                tmp[ins + q] = protein ? 'W' : 'T';
                        }
                        tmp[plen + 30] = 0;
                        nx++;
                }else if(!copy){
                        int d = dl % 3 - 1, del = plen + 5 + 4 * nx, ins = plen + 22 - 3 * nx;
                        dl /= 3;
                        if(d <= 0){
                                memmove(tmp + del, tmp + del + 1, strlen(tmp + del + 1) + 1);
                                ins--;
                        }
                        if(d >= 0){
                                memmove(tmp + ins + 1, tmp + ins, strlen(tmp + ins) + 1);
                                tmp[ins] = alpha[(nx + 1) % sigma];
                        }
                        nx++;
                }
                kx_set_addf(out, tmp, "t%d", i);       /* neutral names: the canonical (length, name) order interleaves copies and relatives as the layout says */
        }
}
static void sh_tie_build(int k, struct kx_set* out)
{
        sh_tie_build_scaled(k, 1030, out);
}
#endif
