/* C14 - letter case and T/U spelling do not influence the alignment.
   A case is one base set; inside it ALL case patterns and (nucleotides) ALL T/U patterns are run. */
#include "vh.h"
#include "kx.h"

const char* vh_property = "C14";

struct fam { const char* alpha; int k; int L; int protein; int ntypes; };
static const struct fam FQ[] = {{"ACT", 2, 3, 0, 4}, {"ACT", 3, 2, 0, 4}, {"LKBU", 2, 3, 1, 3}, {"LKZX", 3, 2, 1, 1}};
/* letter-pair block: for every ordered pair (x, y) of letters of the kind's alphabet the set {xxyx, xyx}, so that every letter occurs
   and dominates some input (nucleotide: A C G T N; protein: the 20 amino acids and B Z X U); default type and every type of the kind.
   two-file block: {ACGTA, CG?TA / C?GTA} with one IUPAC ambiguity code or N in the second sequence, each sequence in a file of its own,
   read into one msa with two kalign_read_input calls (the kind is then decided twice: per file and on the merged counts) */
static const char LNUC[] = "ACGTN";
static const char LPRO[] = "ACDEFGHIKLMNPQRSTVWYBZXU";
static const char IUPAC[] = "RYKMSWBDHVN";
#define NPAIRN (5 * 5 * 4)
#define NPAIRP (24 * 24 * 3)
#define NTWOFILE (11 * 2)
static const struct fam FT[] = {{"ACT", 2, 4, 0, 2}, {"ACGT", 2, 3, 0, 4}, {"ACT", 3, 3, 0, 1}, {"ACT", 4, 2, 0, 1}, {"LKBU", 2, 4, 1, 1}, {"LKZX", 3, 2, 1, 3}, {"LKBUZX", 2, 3, 1, 3}};
static const int DT[] = {KALIGN_TYPE_UNDEFINED, KALIGN_TYPE_DNA, KALIGN_TYPE_DNA_INTERNAL, KALIGN_TYPE_RNA};
static const int PT[] = {KALIGN_TYPE_UNDEFINED, KALIGN_TYPE_PROTEIN, KALIGN_TYPE_PROTEIN_DIVERGENT};

static const struct fam* fams(int tier, int* n)
{
        *n = tier ? (int)(sizeof FT / sizeof FT[0]) : (int)(sizeof FQ / sizeof FQ[0]);
        return tier ? FT : FQ;
}

static uint64_t ipow(uint64_t b, int e) { uint64_t r = 1; while(e-- > 0){ r *= b; } return r; }

static uint64_t fsize(const struct fam* f)
{
        return ipow(kx_count_strings((int)strlen(f->alpha), 1, f->L), f->k) * (uint64_t)f->ntypes;
}

uint64_t vh_total(int tier)
{
        int n, i;
        const struct fam* F = fams(tier, &n);
        uint64_t t = 0;
        for(i = 0; i < n; i++){
                t += fsize(&F[i]);
        }
        return t + NPAIRN + NPAIRP + NTWOFILE;
}

struct bcase { char s[5][8]; int k; int type; int protein; int twofile; };

static void decode(uint64_t id, int tier, struct bcase* c)
{
        int n, i, j;
        const struct fam* F = fams(tier, &n);
        c->twofile = 0;
        for(i = 0; i < n; i++){
                uint64_t sz = fsize(&F[i]);
                if(id < sz){
                        uint64_t S = kx_count_strings((int)strlen(F[i].alpha), 1, F[i].L);
                        c->protein = F[i].protein;
                        c->type = F[i].protein ? PT[id % (uint64_t)F[i].ntypes] : DT[id % (uint64_t)F[i].ntypes];
                        id /= (uint64_t)F[i].ntypes;
                        c->k = F[i].k;
                        for(j = 0; j < c->k; j++){
                                kx_nth_string(id % S, F[i].alpha, 1, F[i].L, c->s[j]);
                                id /= S;
                        }
                        return;
                }
                id -= sz;
        }
        if(id < NPAIRN + NPAIRP){
                int protein = id >= NPAIRN, nl, x, y;
                const char* L;
                if(protein){
                        id -= NPAIRN;
                        c->type = PT[id % 3];
                        id /= 3;
                }else{
                        c->type = DT[id % 4];
                        id /= 4;
                }
                L = protein ? LPRO : LNUC;
                nl = (int)strlen(L);
                x = (int)(id % (uint64_t)nl);
                y = (int)(id / (uint64_t)nl);
                c->protein = protein;
                c->k = 2;
                snprintf(c->s[0], 8, "%c%c%c%c", L[x], L[x], L[y], L[x]);
                snprintf(c->s[1], 8, "%c%c%c", L[x], L[y], L[x]);
                return;
        }
        id -= NPAIRN + NPAIRP;
        c->twofile = 1;
        c->protein = 0;
        c->type = KALIGN_TYPE_UNDEFINED;
        c->k = 2;
        snprintf(c->s[0], 8, "ACGTA");
        if(id % 2){
                snprintf(c->s[1], 8, "C%cGTA", IUPAC[id / 2]);
        }else{
                snprintf(c->s[1], 8, "CG%cTA", IUPAC[id / 2]);
        }
}

void vh_describe(uint64_t id, int tier, char* buf, size_t n)
{
        struct bcase c;
        size_t o;
        int j;
        decode(id, tier, &c);
        o = (size_t)snprintf(buf, n, "base set (all case patterns%s)%s type=%s:", c.protein ? "" : " x all T/U patterns", c.twofile ? " each sequence in a file of its own" : "", kx_type_name(c.type));
        for(j = 0; j < c.k; j++){
                o += (size_t)snprintf(buf + o, n - o, " \"%s\"", c.s[j]);
        }
}

static int run(struct bcase* c, char v[5][8], char*** rows, int* alen)
{
        char* seq[5];
        int len[5], j;
        for(j = 0; j < c->k; j++){
                seq[j] = v[j];
                len[j] = (int)strlen(v[j]);
        }
        vh_count("library_calls");
        if(c->twofile){
                struct msa* m = NULL;
                int rc = OK;
                *rows = NULL;
                for(j = 0; j < c->k && rc == OK; j++){
                        char txt[64];
                        const char* path = vh_tmp(j ? "c14b.fa" : "c14a.fa");
                        size_t o = (size_t)snprintf(txt, sizeof txt, ">s%d\n%s\n", j, v[j]);
                        vh_write_file(path, txt, o);
                        rc = kalign_read_input((char*)path, &m, 1);
                }
                if(rc == OK && m){
                        rc = kalign_run(m, 1, c->type, -1.0f, -1.0f, -1.0f);
                }else{
                        rc = FAIL;
                }
                if(rc == OK){
                        char** names;
                        kx_msa_rows(m, rows, &names);
                        kx_free_rows(names, m->numseq);
                        *alen = m->alnlen;
                }
                if(m){
                        kalign_free_msa(m);
                }
                return rc;
        }
        return kalign(seq, len, c->k, 1, c->type, -1.0f, -1.0f, -1.0f, rows, alen);
}

int vh_case(uint64_t id, int tier)
{
        struct bcase c;
        char** r0 = NULL;
        int a0 = 0, total = 0, nt = 0, j, i;
        int pos_seq[40], pos_idx[40], tpos[40];
        uint64_t cp, tp;
        char pat0[5][40];
        int failed = 0;
        decode(id, tier, &c);
        /* one case runs up to 2^residues x 2^T alignments */
        vh_case_timeout = 900;
        alarm(900);
        for(j = 0; j < c.k; j++){
                for(i = 0; c.s[j][i]; i++){
                        pos_seq[total] = j;
                        pos_idx[total] = i;
                        if(!c.protein && c.s[j][i] == 'T'){
                                tpos[nt++] = total;
                        }
                        total++;
                }
        }
        if(run(&c, c.s, &r0, &a0) != OK){
                vh_count("base_rejected_type_not_admissible");
                return VH_SKIP;
        }
        for(j = 0; j < c.k; j++){
                for(i = 0; r0[j][i]; i++){
                        pat0[j][i] = r0[j][i] == '-' ? '-' : 'x';
                }
                pat0[j][i] = 0;
        }
        for(cp = 0; cp < (1ULL << total) && !failed; cp++){
                for(tp = 0; tp < (1ULL << nt) && !failed; tp++){
                        char v[5][8];
                        char** r = NULL;
                        int a = 0, q;
                        if(cp == 0 && tp == 0){
                                continue;
                        }
                        memcpy(v, c.s, sizeof v);
                        for(q = 0; q < nt; q++){
                                if(tp & (1ULL << q)){
                                        v[pos_seq[tpos[q]]][pos_idx[tpos[q]]] = 'U';
                                }
                        }
                        for(q = 0; q < total; q++){
                                if(cp & (1ULL << q)){
                                        char* ch = &v[pos_seq[q]][pos_idx[q]];
                                        *ch = (char)tolower(*ch);
                                }
                        }
                        if(run(&c, v, &r, &a) != OK){
                                vh_fail("sem:respelt-rejected", "accepted in upper case / T spelling, rejected as \"%s\",\"%s\"%s%s", v[0], v[1], c.k > 2 ? "," : "", c.k > 2 ? v[2] : "");
                                failed = 1;
                                break;
                        }
                        for(j = 0; j < c.k && !failed; j++){
                                int p = 0;
                                if((int)strlen(r[j]) != a0){
                                        failed = 1;
                                }
                                for(i = 0; r[j][i] && !failed; i++){
                                        if((r[j][i] == '-') != (pat0[j][i] == '-')){
                                                failed = 1;
                                        }else if(r[j][i] != '-'){
                                                if(r[j][i] != v[j][p]){
                                                        failed = 2;
                                                }
                                                p++;
                                        }
                                }
                        }
                        if(failed){
                                vh_fail(failed == 2 ? "sem:letters-changed" : "sem:gap-pattern-changed",
                                        "spelling \"%s\",\"%s\"%s%s gives %s/%s, base spelling gives %s/%s", v[0], v[1], c.k > 2 ? "," : "", c.k > 2 ? v[2] : "",
                                        r[0], r[1], r0[0], r0[1]);
                        }
                        kx_free_rows(r, c.k);
                }
        }
        if(kx_has_gap(r0, c.k)){
                vh_count("nontrivial_base_has_gap");
        }
        if(nt){
                vh_count("bases_with_T");
        }
        kx_free_rows(r0, c.k);
        return VH_OK;
}
