/* C03 - the alignment does not depend on the order of the input records (distinct names).
   A case is one named set; inside it ALL k! record orders (small sets) or a complete bounded
   permutation family (>= 100 sequences) are run; oracle: the map name -> gapped row is identical. */
#include "vh.h"
#include "kx.h"
#include "shapes.h"
#include "sched_inputs.h"

const char* vh_property = "C03";

struct fam { const char* alpha; int k; int L; int protein; int ntypes; };
static const struct fam FQ[] = {{"AC", 2, 6, 0, 4}, {"LK", 2, 5, 1, 3}, {"AC", 3, 3, 0, 4}, {"AC", 4, 2, 0, 2}, {"AC", 5, 1, 0, 1}, {"LK", 3, 3, 1, 3}, {"LK", 4, 2, 1, 1}};
static const struct fam FT[] = {{"ACG", 2, 6, 0, 4}, {"LKW", 2, 5, 1, 3}, {"AC", 3, 4, 0, 4}, {"ACG", 3, 3, 0, 2}, {"AC", 4, 3, 0, 2}, {"AC", 5, 2, 0, 1}, {"LK", 3, 4, 1, 3}, {"LKW", 4, 2, 1, 1}, {"LK", 5, 2, 1, 1}};
static const int DT[] = {KALIGN_TYPE_UNDEFINED, KALIGN_TYPE_DNA, KALIGN_TYPE_DNA_INTERNAL, KALIGN_TYPE_RNA};
static const int PT[] = {KALIGN_TYPE_UNDEFINED, KALIGN_TYPE_PROTEIN, KALIGN_TYPE_PROTEIN_DIVERGENT};
#define NNAMING 5       /* s0,s1.. | z0,y1.. (reverse lexicographic) | "Q7Z5 isoform <j>" (blank, common first word) | n, nn, nnn (each a prefix of the next) | 1abcA, 1abca, 1ABCa (differ only in case) */
#define NTIE3 12 /* members of the 1024-prefix tie family (shapes.h): every pair of sequences ties in the guide-tree distance */
#define NBIG (4 + NTIE3)  /* big sets: sched inputs 11 (104 dna), 12 (130 protein), each with two namings; then the tie sets */

static const struct fam* fams(int tier, int* n)
{
        *n = tier ? (int)(sizeof FT / sizeof FT[0]) : (int)(sizeof FQ / sizeof FQ[0]);
        return tier ? FT : FQ;
}
static uint64_t ipow(uint64_t b, int e) { uint64_t r = 1; while(e-- > 0){ r *= b; } return r; }
static uint64_t fsize(const struct fam* f)
{
        return ipow(kx_count_strings((int)strlen(f->alpha), 1, f->L), f->k) * (uint64_t)f->ntypes * NNAMING;
}

/* big sets are split into slices so that the 16 shards share them: slice = block of the permutation family */
#define BIGSLICES 64
uint64_t vh_total(int tier)
{
        int n, i;
        const struct fam* F = fams(tier, &n);
        uint64_t t = 0;
        for(i = 0; i < n; i++){
                t += fsize(&F[i]);
        }
        return t + NBIG * BIGSLICES;
}

struct ocase { struct kx_set in; int type; int big; int slice; };

static void decode(uint64_t id, int tier, struct ocase* c)
{
        int n, i, j;
        const struct fam* F = fams(tier, &n);
        kx_set_init(&c->in);
        c->big = -1;
        for(i = 0; i < n; i++){
                uint64_t sz = fsize(&F[i]);
                if(id < sz){
                        uint64_t S = kx_count_strings((int)strlen(F[i].alpha), 1, F[i].L);
                        int naming = (int)(id % NNAMING);
                        char buf[16], nm[32];
                        id /= NNAMING;
                        c->type = F[i].protein ? PT[id % (uint64_t)F[i].ntypes] : DT[id % (uint64_t)F[i].ntypes];
                        id /= (uint64_t)F[i].ntypes;
                        for(j = 0; j < F[i].k; j++){
                                kx_nth_string(id % S, F[i].alpha, 1, F[i].L, buf);
                                id /= S;
                                if(naming == 1){
                                        snprintf(nm, sizeof nm, "%c%d", 'z' - j, j);
                                }else if(naming == 2){
                                        snprintf(nm, sizeof nm, "Q7Z5 isoform %d", F[i].k - j);
                                }else if(naming == 4){
                                        /* names that differ only in letter case (PDB chain style) */
                                        static const char* CASEN[5] = {"1abcA", "1abca", "1ABCa", "1aBca", "1abCA"};
                                        snprintf(nm, sizeof nm, "%s", CASEN[j % 5]);
                                }else if(naming == 3){
                                        snprintf(nm, sizeof nm, "%.*s", j + 1, "nnnnnnnn");
                                }else{
                                        snprintf(nm, sizeof nm, "s%d", j);
                                }
                                kx_set_add(&c->in, buf, nm);
                        }
                        return;
                }
                id -= sz;
        }
        c->big = (int)(id / BIGSLICES);
        c->slice = (int)(id % BIGSLICES);
        c->type = KALIGN_TYPE_UNDEFINED;
        if(c->big >= 4){
                sh_tie_build(((c->big - 4) * 61) % SH_NTIE, &c->in);
                return;
        }
        sinput_build(sinput_get(11 + c->big / 2), &c->in);
        if(c->big & 1){
                /* second naming: lexicographic order is the reverse of the input order */
                for(i = 0; i < c->in.n; i++){
                        char nm[16];
                        free(c->in.name[i]);
                        snprintf(nm, sizeof nm, "r%03d", 999 - i);
                        c->in.name[i] = strdup(nm);
                }
        }
}

void vh_describe(uint64_t id, int tier, char* buf, size_t n)
{
        struct ocase c;
        size_t o;
        int i;
        decode(id, tier, &c);
        if(c.big >= 0){
                snprintf(buf, n, "%d named sequences (set %d, slice %d/%d of {all transpositions, rotations, reversal}) type=%s", c.in.n, c.big, c.slice, BIGSLICES, kx_type_name(c.type));
        }else{
                o = (size_t)snprintf(buf, n, "all %d! record orders, type=%s:", c.in.n, kx_type_name(c.type));
                for(i = 0; i < c.in.n; i++){
                        o += (size_t)snprintf(buf + o, n - o, " %s=\"%s\"", c.in.name[i], c.in.seq[i]);
                }
        }
        kx_set_free(&c.in);
}

/* runs the set in the order perm[]; rows_by_orig[perm[i]] = row i.  Uses the named msa object. */
static int run_perm(const struct kx_set* in, const int* perm, int type, char** rows_by_orig, int* order_ok)
{
        struct kx_set p;
        struct msa* m;
        int i, rc;
        kx_set_init(&p);
        for(i = 0; i < in->n; i++){
                p.seq[i] = in->seq[perm[i]];
                p.len[i] = in->len[perm[i]];
                p.name[i] = in->name[perm[i]];
        }
        p.n = in->n;
        m = kx_make_msa(&p);
        vh_count("library_calls");
        rc = kalign_run(m, 1, type, -1.0f, -1.0f, -1.0f);
        *order_ok = 1;
        if(rc == OK){
                for(i = 0; i < in->n; i++){
                        rows_by_orig[perm[i]] = strdup(m->sequences[i]->seq);
                        if(strcmp(m->sequences[i]->name, in->name[perm[i]]) != 0){
                                *order_ok = 0;
                        }
                }
        }
        kalign_free_msa(m);
        return rc;
}

static int compare(const struct kx_set* in, char** base, char** got, const int* perm, const char* what)
{
        int i;
        for(i = 0; i < in->n; i++){
                if(strcmp(base[i], got[i]) != 0){
                        char ord[200];
                        size_t o = 0;
                        int j;
                        for(j = 0; j < in->n && j < 12 && o + 12 < sizeof ord; j++){
                                o += (size_t)snprintf(ord + o, sizeof ord - o, "%s%s", j ? "," : "", in->name[perm[j]]);
                        }
                        vh_fail("sem:order-dependent", "%s: sequence %s has row \"%.80s\" in input order and \"%.80s\" when the records are supplied as [%s%s]",
                                what, in->name[i], base[i], got[i], ord, in->n > 12 ? ",..." : "");
                        return 1;
                }
        }
        return 0;
}

static void free_rows(char** r, int n)
{
        int i;
        for(i = 0; i < n; i++){
                free(r[i]);
                r[i] = NULL;
        }
}

int vh_case(uint64_t id, int tier)
{
        struct ocase c;
        static char* base[KX_MAXSEQ];
        static char* got[KX_MAXSEQ];
        static int perm[KX_MAXSEQ];
        int i, n, ok, failed = 0;
        decode(id, tier, &c);
        n = c.in.n;
        for(i = 0; i < n; i++){
                perm[i] = i;
        }
        if(c.big >= 0){
                vh_case_timeout = 300;
                alarm(300);
        }
        if(run_perm(&c.in, perm, c.type, base, &ok) != OK){
                vh_count("base_rejected_type_not_admissible");
                kx_set_free(&c.in);
                return VH_SKIP;
        }
        if(!ok){
                vh_fail("sem:rows-not-in-input-order", "rows are not returned in the order supplied");
        }
        if(c.big < 0){
                /* all permutations (Heap's algorithm, iterative) */
                int cst[8] = {0};
                i = 0;
                while(i < n && !failed){
                        if(cst[i] < i){
                                int a = (i % 2 == 0) ? 0 : cst[i], t = perm[a];
                                perm[a] = perm[i];
                                perm[i] = t;
                                if(run_perm(&c.in, perm, c.type, got, &ok) != OK){
                                        vh_fail("sem:permutation-rejected", "accepted in one order, rejected in another");
                                        failed = 1;
                                }else{
                                        if(!ok){
                                                vh_fail("sem:rows-not-in-input-order", "rows are not returned in the order supplied");
                                                failed = 1;
                                        }
                                        failed |= compare(&c.in, base, got, perm, "permutation");
                                        free_rows(got, n);
                                }
                                vh_count("permutations_run");
                                cst[i]++;
                                i = 0;
                        }else{
                                cst[i] = 0;
                                i++;
                        }
                }
        }else{
                /* family: all transpositions (i<j), all rotations, reversal; member index m; this slice takes m % BIGSLICES == slice.
                   quick tier: every 10th transposition (stated in the evidence rule) */
                long m = 0;
                int a, b, step = tier ? 1 : 10;
                for(a = 0; a < n && !failed; a++){
                        for(b = a + 1; b < n && !failed; b++, m++){
                                if(m % BIGSLICES != c.slice || (m / BIGSLICES) % step != 0){
                                        continue;
                                }
                                for(i = 0; i < n; i++){
                                        perm[i] = i;
                                }
                                perm[a] = b;
                                perm[b] = a;
                                if(run_perm(&c.in, perm, c.type, got, &ok) != OK){
                                        vh_fail("sem:permutation-rejected", "accepted in one order, rejected in another");
                                        failed = 1;
                                }else{
                                        failed |= compare(&c.in, base, got, perm, "transposition");
                                        free_rows(got, n);
                                }
                                vh_count("permutations_run");
                        }
                }
                for(a = 1; a <= n && !failed; a++, m++){
                        if(m % BIGSLICES != c.slice){
                                continue;
                        }
                        for(i = 0; i < n; i++){
                                perm[i] = (a == n) ? n - 1 - i : (i + a) % n;        /* a == n: reversal */
                        }
                        if(run_perm(&c.in, perm, c.type, got, &ok) == OK){
                                failed |= compare(&c.in, base, got, perm, a == n ? "reversal" : "rotation");
                                free_rows(got, n);
                        }else{
                                vh_fail("sem:permutation-rejected", "accepted in one order, rejected in another");
                                failed = 1;
                        }
                        vh_count("permutations_run");
                }
                vh_count("kmeans_path_cases");
        }
        {
                int g = 0;
                for(i = 0; i < n; i++){
                        if(strchr(base[i], '-')){
                                g = 1;
                        }
                }
                if(g){
                        vh_count("nontrivial_base_has_gap");
                }
        }
        free_rows(base, n);
        kx_set_free(&c.in);
        return VH_OK;
}
