/* kx: helpers the harnesses use to drive kalign and to judge alignments.
   The judging code (kx_check_alignment, oracle/) contains no kalign code. */
#ifndef KX_H
#define KX_H
#include <stdio.h>
#include <stdlib.h>
#include <string.h>
#include <ctype.h>
#include <math.h>

#include "tldevel.h"
#include "kalign/kalign.h"
#include "msa_struct.h"
#include "msa_op.h"
#include "msa_alloc.h"
#include "msa_check.h"
#include "aln_param.h"
#include "task.h"
#include "kalign_verif.h"

#include "../oracle/fmt.h"

#define KX_MAXSEQ 2048

struct kx_set {
        int n;
        char* seq[KX_MAXSEQ];
        int len[KX_MAXSEQ];
        char* name[KX_MAXSEQ];
};

static void kx_set_init(struct kx_set* s)
{
        s->n = 0;
}

static void kx_set_add(struct kx_set* s, const char* seq, const char* name)
{
        s->seq[s->n] = strdup(seq);
        s->len[s->n] = (int)strlen(seq);
        s->name[s->n] = strdup(name ? name : "");
        s->n++;
}

static void kx_set_addf(struct kx_set* s, const char* seq, const char* namefmt, int k)
{
        char nm[64];
        snprintf(nm, sizeof nm, namefmt, k);
        kx_set_add(s, seq, nm);
}

static void kx_set_free(struct kx_set* s)
{
        int i;
        for(i = 0; i < s->n; i++){
                free(s->seq[i]);
                free(s->name[i]);
        }
        s->n = 0;
}

static void kx_free_rows(char** rows, int n)
{
        int i;
        if(rows){
                for(i = 0; i < n; i++){
                        free(rows[i]);
                }
                free(rows);
        }
}

/* bare FASTA, one line per sequence (kalign's reader has no line-length limit) */
static char* kx_fasta_text(const struct kx_set* s, int wrap)
{
        size_t cap = 64;
        char* out;
        size_t o = 0;
        int i, j;
        for(i = 0; i < s->n; i++){
                cap += strlen(s->name[i]) + (size_t)s->len[i] * 2 + 8;
        }
        out = malloc(cap);
        for(i = 0; i < s->n; i++){
                o += (size_t)sprintf(out + o, ">%s\n", s->name[i]);
                if(wrap <= 0){
                        o += (size_t)sprintf(out + o, "%s\n", s->seq[i]);
                }else{
                        for(j = 0; j < s->len[i]; j += wrap){
                                o += (size_t)sprintf(out + o, "%.*s\n", wrap, s->seq[i] + j);
                        }
                        if(s->len[i] == 0){
                                out[o++] = '\n';
                        }
                }
        }
        out[o] = 0;
        return out;
}

/* Integrity predicate of C01, against the input as given.
   rows/names: the alignment returned; in: the input; only non-empty input sequences are expected, in order.
   names may be NULL (array API has none).  Returns 0 if fine, else writes a rule name to why. */
static int kx_check_alignment(const struct kx_set* in, int nrows, char** rows, char** names, int alnlen, char* why, size_t whyn)
{
        int i, r = 0, c;
        int expect = 0;
        for(i = 0; i < in->n; i++){
                if(in->len[i] > 0){
                        expect++;
                }
        }
        if(nrows != expect){
                snprintf(why, whyn, "rowcount: %d rows for %d non-empty inputs", nrows, expect);
                return 1;
        }
        for(i = 0; i < in->n; i++){
                const char* row;
                int k = 0, j;
                if(in->len[i] == 0){
                        continue;
                }
                row = rows[r];
                if(!row){
                        snprintf(why, whyn, "nullrow: row %d is NULL", r);
                        return 1;
                }
                if((int)strlen(row) != alnlen){
                        snprintf(why, whyn, "rowlen: row %d has length %d, alignment length %d", r, (int)strlen(row), alnlen);
                        return 1;
                }
                for(j = 0; row[j]; j++){
                        if(row[j] == '-'){
                                continue;
                        }
                        if(k >= in->len[i] || row[j] != in->seq[i][k]){
                                snprintf(why, whyn, "residues: row %d differs from its input at residue %d ('%c' vs '%c')", r, k,
                                         row[j], k < in->len[i] ? in->seq[i][k] : '$');
                                return 1;
                        }
                        k++;
                }
                if(k != in->len[i]){
                        snprintf(why, whyn, "residues: row %d has %d residues, input has %d", r, k, in->len[i]);
                        return 1;
                }
                if(names && strcmp(names[r], in->name[i]) != 0){
                        snprintf(why, whyn, "name: row %d is named '%.40s', input '%.40s'", r, names[r], in->name[i]);
                        return 1;
                }
                r++;
        }
        for(c = 0; c < alnlen; c++){
                int any = 0;
                for(i = 0; i < nrows; i++){
                        if(rows[i][c] != '-'){
                                any = 1;
                                break;
                        }
                }
                if(!any){
                        snprintf(why, whyn, "allgap: column %d consists of gaps only", c);
                        return 1;
                }
        }
        return 0;
}

static int kx_has_gap(char** rows, int n)
{
        int i;
        for(i = 0; i < n; i++){
                if(strchr(rows[i], '-')){
                        return 1;
                }
        }
        return 0;
}

/* gap pattern hash of an alignment (letters replaced by x) */
static uint64_t kx_pattern_hash(char** rows, int n)
{
        uint64_t h = 1469598103934665603ULL;
        int i;
        const char* p;
        for(i = 0; i < n; i++){
                for(p = rows[i]; *p; p++){
                        h = (h ^ (uint64_t)(*p == '-' ? '-' : 'x')) * 1099511628211ULL;
                }
                h = (h ^ '/') * 1099511628211ULL;
        }
        return h;
}

/* ---- entry point 1: the array API ---- */
static int kx_kalign_arr(const struct kx_set* in, int threads, int type, float gpo, float gpe, float tgpe,
                         char*** rows, int* alnlen)
{
        /* The sequences are handed over as (pointer, length) slices of longer buffers: each is followed by "W*" instead of a
           terminating 0, so a routine that looks past the given length sees a protein-only letter and a punctuation mark. */
        char** sl = malloc(sizeof(char*) * (size_t)(in->n + 1));
        int i, rc;
        *rows = NULL;
        *alnlen = 0;
        for(i = 0; i < in->n; i++){
                sl[i] = malloc((size_t)in->len[i] + 3);
                memcpy(sl[i], in->seq[i], (size_t)in->len[i]);
                sl[i][in->len[i]] = 'W';
                sl[i][in->len[i] + 1] = '*';
                sl[i][in->len[i] + 2] = 0;
        }
        rc = kalign(sl, (int*)in->len, in->n, threads, type, gpo, gpe, tgpe, rows, alnlen);
        for(i = 0; i < in->n; i++){
                free(sl[i]);
        }
        free(sl);
        return rc;
}

/* ---- building an msa object with names, without files (internal API; avoids the
        never-initialised names of kalign_arr_to_msa) ---- */
static struct msa* kx_make_msa(const struct kx_set* in)
{
        struct msa* m = NULL;
        int i;
        if(kalign_arr_to_msa((char**)in->seq, (int*)in->len, in->n, &m) != OK){
                return NULL;
        }
        for(i = 0; i < in->n; i++){
                snprintf(m->sequences[i]->name, MSA_NAME_LEN, "%s", in->name[i]);
        }
        m->quiet = 1;
        return m;
}

/* rows and names of a finalised msa (copies) */
static void kx_msa_rows(struct msa* m, char*** rows, char*** names)
{
        int i;
        *rows = malloc(sizeof(char*) * (size_t)(m->numseq + 1));
        *names = malloc(sizeof(char*) * (size_t)(m->numseq + 1));
        for(i = 0; i < m->numseq; i++){
                (*rows)[i] = strdup(m->sequences[i]->seq);
                (*names)[i] = strdup(m->sequences[i]->name);
        }
}

/* gapped row of sequence i of an msa that was READ from an aligned file (status ALIGNED): from gaps[] and seq */
static char* kx_row_from_gaps(struct msa_seq* s)
{
        int total = s->len, j, c, o = 0;
        char* r;
        for(j = 0; j <= s->len; j++){
                total += s->gaps[j];
        }
        r = malloc((size_t)total + 1);
        for(j = 0; j < s->len; j++){
                for(c = 0; c < s->gaps[j]; c++){
                        r[o++] = '-';
                }
                r[o++] = s->seq[j];
        }
        for(c = 0; c < s->gaps[s->len]; c++){
                r[o++] = '-';
        }
        r[o] = 0;
        return r;
}

static const char* kx_type_name(int t)
{
        static const char* n[] = {"dna", "internal", "rna", "protein", "divergent", "undefined"};
        return (t >= 0 && t <= 5) ? n[t] : "?";
}

/* mixed-radix helper */
struct kx_radix {
        uint64_t id;
};
static inline uint64_t kx_take(uint64_t* id, uint64_t base)
{
        uint64_t r = *id % base;
        *id /= base;
        return r;
}

/* the k-th string over `alpha` in length-then-lexicographic order starting at length minlen;
   returns its length (writes to out, NUL-terminated) */
static uint64_t kx_count_strings(int sigma, int minlen, int maxlen)
{
        uint64_t t = 0, p = 1;
        int l;
        for(l = 0; l <= maxlen; l++){
                if(l >= minlen){
                        t += p;
                }
                p *= (uint64_t)sigma;
        }
        return t;
}

static int kx_nth_string(uint64_t k, const char* alpha, int minlen, int maxlen, char* out)
{
        int sigma = (int)strlen(alpha);
        uint64_t p = 1;
        int l, i;
        for(l = 0; l < minlen; l++){
                p *= (uint64_t)sigma;
        }
        for(l = minlen; l <= maxlen; l++){
                if(k < p){
                        for(i = l - 1; i >= 0; i--){
                                out[i] = alpha[k % (uint64_t)sigma];
                                k /= (uint64_t)sigma;
                        }
                        out[l] = 0;
                        return l;
                }
                k -= p;
                p *= (uint64_t)sigma;
        }
        out[0] = 0;
        return -1;
}

/* ---- the command-line program, called in a forked child so that exit(), fclose(stdin) and getopt state
        cannot leak into the harness.  The child links the CLI's own main() (renamed kalign_cli_main by
        engine/build.py).  `observe`, if not NULL, is installed as the verification hook in the child. ---- */
#ifdef KX_WITH_CLI
#include <sys/wait.h>
#include <sys/mman.h>
#include <getopt.h>
int kalign_cli_main(int argc, char** argv);

struct kx_cli_result {
        int exited;             /* 1: normal exit */
        int status;             /* exit status or signal number */
        char out[4096];         /* first bytes of stdout */
        char err[4096];         /* first bytes of stderr */
        size_t outn, errn;
};

static int kx_cli(char** argv, const char* stdin_path, void (*observe)(int, int, int, int, const void*, const void*),
                  struct kx_cli_result* res, const char* tmpdir)
{
        char po[400], pe[400];
        pid_t pid;
        int st, argc = 0;
        snprintf(po, sizeof po, "%s/cli.out", tmpdir);
        snprintf(pe, sizeof pe, "%s/cli.err", tmpdir);
        while(argv[argc]){
                argc++;
        }
        fflush(NULL);
        pid = fork();
        if(pid == 0){
                int fi = open(stdin_path ? stdin_path : "/dev/null", O_RDONLY);
                int fo = open(po, O_WRONLY | O_CREAT | O_TRUNC, 0600);
                int fe = open(pe, O_WRONLY | O_CREAT | O_TRUNC, 0600);
                int rc;
                dup2(fi, 0);
                dup2(fo, 1);
                dup2(fe, 2);
                kalign_verif_hook = observe;
                optind = 0;
                alarm(20);
                rc = kalign_cli_main(argc, argv);
                fflush(NULL);
                _exit(rc);
        }
        while(waitpid(pid, &st, 0) < 0){
        }
        memset(res, 0, sizeof *res);
        if(WIFEXITED(st)){
                res->exited = 1;
                res->status = WEXITSTATUS(st);
        }else{
                res->status = WIFSIGNALED(st) ? WTERMSIG(st) : -1;
        }
        {
                FILE* f = fopen(po, "rb");
                if(f){
                        res->outn = fread(res->out, 1, sizeof res->out - 1, f);
                        fclose(f);
                }
                f = fopen(pe, "rb");
                if(f){
                        res->errn = fread(res->err, 1, sizeof res->err - 1, f);
                        fclose(f);
                }
        }
        return 0;
}
#endif
#endif
