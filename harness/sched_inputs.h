/* Inputs of the schedule harnesses (C02/C10), chosen by the guide-tree shape they produce
   (reported through the TREE hook by --mode info) and by the parallel regions they reach. */
#ifndef SCHED_INPUTS_H
#define SCHED_INPUTS_H
#include "kx.h"
#include "shapes.h"

struct sinput {
        const char* name;
        int kind;       /* 0: literal list, 1: long pair/triple (n seqs of ~len), 2: many short (n seqs) */
        int n;
        int len;
        int protein;
        int type;
        float gpo, gpe, tgpe;
        const char* lit[8];
};

static const struct sinput SINPUTS[] = {
        {"bal4-dna", 0, 4, 0, 0, KALIGN_TYPE_UNDEFINED, -1, -1, -1, {"ACGTACGT", "ACGTACG", "TTGACC", "TTGAC"}},
        {"cat4-dna", 0, 4, 0, 0, KALIGN_TYPE_DNA, -1, -1, -1, {"ACGTACGTAC", "ACGTACGT", "ACGTAC", "ACGT"}},
        {"mix5-dna", 0, 5, 0, 0, KALIGN_TYPE_DNA_INTERNAL, -1, -1, -1, {"ACGTACGT", "ACGTACG", "TTGACC", "TTGAC", "GGTTGACCA"}},
        {"two3-dna", 0, 6, 0, 0, KALIGN_TYPE_UNDEFINED, -1, -1, -1, {"ACGTACGT", "ACGTACG", "ACGTTCG", "TTGACC", "TTGAC", "TTGGACC"}},
        {"dup5-dna", 0, 5, 0, 0, KALIGN_TYPE_UNDEFINED, 3, 1, 0, {"ACGTAC", "ACGTAC", "ACGTAC", "TTGAC", "TTGAC"}},
        {"bal4-prot", 0, 4, 0, 1, KALIGN_TYPE_PROTEIN, -1, -1, -1, {"LKWLKDEL", "LKWLKEL", "WWDEKK", "WWDEK"}},
        {"gap6-prot", 0, 6, 0, 1, KALIGN_TYPE_PROTEIN_DIVERGENT, 2, 1, 0, {"LKWLKDELKW", "LKWDELKW", "LKLKDEW", "WWDEKKLL", "WWEKLL", "DEKKLLW"}},
        {"dp2x520", 1, 2, 520, 0, KALIGN_TYPE_UNDEFINED, -1, -1, -1, {0}},
        {"dp3x510", 1, 3, 510, 0, KALIGN_TYPE_DNA, -1, -1, -1, {0}},
        {"dp4x505-prot", 1, 4, 505, 1, KALIGN_TYPE_UNDEFINED, -1, -1, -1, {0}},
        {"dp2x1100", 1, 2, 1100, 0, KALIGN_TYPE_UNDEFINED, -1, -1, -1, {0}},
        {"km104-dna", 2, 104, 0, 0, KALIGN_TYPE_UNDEFINED, -1, -1, -1, {0}},
        {"km130-prot", 2, 130, 0, 1, KALIGN_TYPE_UNDEFINED, -1, -1, -1, {0}},
        {"km230-dna", 2, 230, 0, 0, KALIGN_TYPE_DNA, -1, -1, -1, {0}},
        /* shapes used by the Promela conformance check (models/): a 3-leaf chain and a 4-leaf caterpillar */
        {"three-dna", 0, 3, 0, 0, KALIGN_TYPE_UNDEFINED, -1, -1, -1, {"ACGTACGT", "ACGTACG", "TTGACC"}},
        {"cat4b-dna", 0, 4, 0, 0, KALIGN_TYPE_UNDEFINED, -1, -1, -1, {"ACGTACGTACGTAA", "ACGTACGTACGTA", "ACGTACGTCCAT", "GGTTGGTTGG"}},
        /* k-means restarts that tie exactly: two families of equal-length sequences that differ by compensating shifts inside
           homopolymer runs (the restarts find the same split with left and right exchanged; both halves give profiles of equal
           length and the merge has tied gap placements, so the order of the two children is visible in the bytes) */
        {"kmtie120-prot", 3, 120, 0, 1, KALIGN_TYPE_UNDEFINED, -1, -1, -1, {0}},
};

#ifndef SINPUT_TIE_SEED
#define SINPUT_TIE_SEED 1
#endif
static int sinput_count(void)
{
        return (int)(sizeof SINPUTS / sizeof SINPUTS[0]);
}

static const struct sinput* sinput_get(int k)
{
        if(k < 0 || k >= sinput_count()){
                k = 0;
        }
        return &SINPUTS[k];
}

static void sinput_build(const struct sinput* si, struct kx_set* out)
{
        int i;
        uint64_t st = 0xC0FFEE1234ULL + (uint64_t)si->n * 7919u + (uint64_t)si->len;
        const char* alpha = si->protein ? "LKWAVDEG" : "ACGT";
        kx_set_init(out);
        if(si->kind == 0){
                for(i = 0; i < si->n; i++){
                        kx_set_addf(out, si->lit[i], "s%d", i);
                }
        }else if(si->kind == 1){
                static char base[4096], tmp[4096];
                sh_random_seq(&st, alpha, si->len + 20, base);
                for(i = 0; i < si->n; i++){
                        sh_derive(&st, alpha, base, si->len + 20, si->len + 7 * i, tmp);
                        kx_set_addf(out, tmp, "long%d", i);
                }
        }else if(si->kind == 3){
                static const char AA[] = "ACDEFGHIKLMNPQRSTVWY";
                char X[200], Y[200], tmp[200];
                int runpos[12], nx = 0, b, k, yo = 0;
                uint64_t s2 = 0xA11CE5EEDULL + (uint64_t)SINPUT_TIE_SEED;
                for(b = 0; b < 12; b++){
                        char c;
                        for(k = 0; k < 8; k++){
                                X[nx++] = AA[sh_rng(&s2) % 20];
                        }
                        c = AA[sh_rng(&s2) % 20];
                        runpos[b] = nx;
                        for(k = 0; k < 4; k++){
                                X[nx++] = c;
                        }
                }
                X[nx] = 0;
                /* Y: runs 1, 5, 9 one shorter; runs 3, 7, 11 one longer (same total length) */
                for(k = 0, b = 0; k < nx; k++){
                        while(b < 12 && runpos[b] < k){
                                b++;
                        }
                        if(b < 12 && runpos[b] == k && (b == 1 || b == 5 || b == 9)){
                                continue;               /* drop the first residue of the run */
                        }
                        Y[yo++] = X[k];
                        if(b < 12 && runpos[b] == k && (b == 3 || b == 7 || b == 11)){
                                Y[yo++] = X[k];         /* repeat it */
                        }
                }
                Y[yo] = 0;
                for(i = 0; i < si->n; i++){
                        const char* src = (i & 1) ? Y : X;
                        int q;
                        strcpy(tmp, src);
                        for(q = 0; q < 3; q++){
                                /* substitutions inside the 8-residue blocks only (block b, offset 1..6) */
                                int blk = (int)(sh_rng(&s2) % 12), off = 1 + (int)(sh_rng(&s2) % 6), pos = blk * 12 + off;
                                if(i & 1){
                                        /* positions in Y are shifted by the runs dropped / repeated before the block */
                                        int d = 0, r;
                                        for(r = 0; r < blk; r++){
                                                d += (r == 3 || r == 7 || r == 11) - (r == 1 || r == 5 || r == 9);
                                        }
                                        pos += d;
                                }
                                tmp[pos] = AA[sh_rng(&s2) % 20];
                        }
                        kx_set_addf(out, tmp, (i & 1) ? "q%04d_y" : "q%04d_x", i);
                }
        }else{
                char bases[6][40];
                char tmp[64];
                for(i = 0; i < 6; i++){
                        sh_random_seq(&st, alpha, 8 + (i % 3), bases[i]);
                }
                for(i = 0; i < si->n; i++){
                        int b = (i * 5) % 6;
                        if(i % 3 == 0){
                                kx_set_addf(out, bases[b], "m%03d", i);         /* many exact duplicates: ties everywhere */
                        }else{
                                sh_derive(&st, alpha, bases[b], (int)strlen(bases[b]), (int)strlen(bases[b]) - (i % 2), tmp);
                                kx_set_addf(out, tmp, "m%03d", i);
                        }
                }
        }
}
#endif
