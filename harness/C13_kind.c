/* C13 - nucleotide / protein recognised from the residue letters.
   Case = (count vector over letter classes, non-residue factor, arrangement, entry point); all vectors with
   total <= T that satisfy one of the two premises are enumerated. */
#include "vh.h"
#include "kx.h"

const char* vh_property = "C13";

static const char SHARED[] = "ACGTN";
static const char PROTONLY[] = "DEFHIKLMPQRSVWY";
static const char OTHER[] = "BJOXZ";

static int T(int tier) { return tier ? 30 : 14; }

/* vectors (s,u,p,o), 2 <= s+u+p+o <= T, ordered by total then lexicographically; premise-filtered list built once */
struct vec { unsigned char s, u, p, o; };
static struct vec* VEC;
static uint64_t NVEC;
#define NFACT 4
#define NARR 12
#define NENTRY 2

static int premise(const struct vec* v)
{
        int t = v->s + v->u + v->p + v->o;
        if(v->p == 0 && v->o == 0){
                return 1;       /* all residues nucleotide letters -> nucleotide */
        }
        if(4 * v->p >= t){
                return 2;       /* >= 1/4 protein-only letters -> protein */
        }
        return 0;
}

void vh_init(int tier)
{
        int t, s, u, p;
        uint64_t cap = 1 << 16;
        VEC = malloc(sizeof(*VEC) * cap);
        NVEC = 0;
        for(t = 2; t <= T(tier); t++){
                for(s = 0; s <= t; s++){
                        for(u = 0; s + u <= t; u++){
                                for(p = 0; s + u + p <= t; p++){
                                        struct vec v = {(unsigned char)s, (unsigned char)u, (unsigned char)p, (unsigned char)(t - s - u - p)};
                                        if(premise(&v)){
                                                if(NVEC == cap){
                                                        cap *= 2;
                                                        VEC = realloc(VEC, sizeof(*VEC) * cap);
                                                }
                                                VEC[NVEC++] = v;
                                        }
                                }
                        }
                }
        }
}

/* letter block: inputs made of one or two different letters only: every single nucleotide letter and every pair of them
   (A C G T U N in both cases: nucleotide), every single protein-only letter (protein); two sequences, totals 4 and 12; both entries */
static const char NUCL[] = "ACGTUNacgtun";
static const char PONLY[] = "DEFHIKLMPQRSVWYdefhiklmpqrsvwy";
#define NLET (12 + 66 + 30)
static uint64_t nletter(void) { return (uint64_t)NLET * 2 * 2; }

uint64_t vh_total(int tier)
{
        (void)tier;
        return NVEC * NFACT * NARR * NENTRY + nletter();
}

static int letter_case(uint64_t id, char seqs[2][32], int* want, int* entry)
{
        int total, k, a = 0, b = 0, i;
        *entry = (int)(id % 2);
        id /= 2;
        total = (id % 2) ? 12 : 4;
        id /= 2;
        k = (int)id;
        if(k < 12){
                a = b = k;
                *want = ALN_BIOTYPE_DNA;
        }else if(k < 12 + 66){
                int q = k - 12, x, y, c = 0;
                for(x = 0; x < 12; x++){
                        for(y = x + 1; y < 12; y++, c++){
                                if(c == q){
                                        a = x;
                                        b = y;
                                }
                        }
                }
                *want = ALN_BIOTYPE_DNA;
        }else{
                a = b = k - 78;
                *want = ALN_BIOTYPE_PROTEIN;
        }
        for(i = 0; i < total; i++){
                const char* L = *want == ALN_BIOTYPE_DNA ? NUCL : PONLY;
                seqs[i % 2][i / 2] = L[(i % 3 == 1) ? b : a];
        }
        seqs[0][(total + 1) / 2] = 0;
        seqs[1][total / 2] = 0;
        return total;
}

struct kcase {
        struct vec v;
        int fact;       /* non-residue characters: 0, 1, 5, 10 x residues */
        int arr;
        int entry;      /* 0: FASTA file via kalign_read_input, 1: kalign_arr_to_msa (only when fact == 0) else Clustal-style file */
        int nonres;
        char seqs[3][2048];
        int nseq;
        char names[3][16];
};

static void build_case(uint64_t id, struct kcase* c)
{
        char res[64];
        int n = 0, i, t;
        int order, split, naming;
        c->entry = (int)(id % NENTRY);
        id /= NENTRY;
        c->arr = (int)(id % NARR);
        id /= NARR;
        c->fact = (int)(id % NFACT);
        id /= NFACT;
        c->v = VEC[id];
        t = c->v.s + c->v.u + c->v.p + c->v.o;
        /* residues, class by class, alternating case */
        for(i = 0; i < c->v.s; i++){
                res[n++] = SHARED[i % 5];
        }
        for(i = 0; i < c->v.u; i++){
                res[n++] = 'U';
        }
        for(i = 0; i < c->v.p; i++){
                res[n++] = PROTONLY[(i * 7) % 15];
        }
        for(i = 0; i < c->v.o; i++){
                res[n++] = OTHER[i % 5];
        }
        for(i = 0; i < n; i++){
                if(i % 3 == 1){
                        res[i] = (char)tolower(res[i]);
                }
        }
        order = c->arr % 3;
        split = (c->arr / 3) % 2;
        naming = c->arr / 6;
        if(order == 1){
                for(i = 0; i < n / 2; i++){
                        char x = res[i];
                        res[i] = res[n - 1 - i];
                        res[n - 1 - i] = x;
                }
        }else if(order == 2){
                char tmp[64];
                int a = 0, b = n - 1, k = 0;
                while(a <= b){
                        tmp[k++] = res[a++];
                        if(a <= b){
                                tmp[k++] = res[b--];
                        }
                }
                memcpy(res, tmp, (size_t)n);
        }
        c->nonres = c->fact == 0 ? 0 : (c->fact == 1 ? 1 : (c->fact == 2 ? 5 : 10 * t));
        /* two or three sequences, each non-empty */
        c->nseq = (split && t >= 3) ? 3 : 2;
        {
                int per = t / c->nseq, pos = 0, k;
                for(k = 0; k < c->nseq; k++){
                        int len = (k == c->nseq - 1) ? t - pos : per;
                        int g = c->nonres / c->nseq + (k < c->nonres % c->nseq ? 1 : 0);
                        int o = 0, j;
                        /* gap characters: half leading, rest after the first residue */
                        for(j = 0; j < g / 2; j++){
                                c->seqs[k][o++] = '-';
                        }
                        for(j = 0; j < len; j++){
                                c->seqs[k][o++] = res[pos + j];
                                if(j == 0){
                                        int q;
                                        for(q = 0; q < g - g / 2; q++){
                                                c->seqs[k][o++] = (q & 1) ? '.' : '-';
                                        }
                                }
                        }
                        c->seqs[k][o] = 0;
                        pos += len;
                        snprintf(c->names[k], sizeof c->names[k], naming ? "%c_seq" : "s%d", naming ? 'z' - k : k);
                }
        }
}

void vh_describe(uint64_t id, int tier, char* buf, size_t n)
{
        struct kcase c;
        (void)tier;
        if(id >= NVEC * NFACT * NARR * NENTRY){
                char q[2][32];
                int want, entry;
                letter_case(id - NVEC * NFACT * NARR * NENTRY, q, &want, &entry);
                snprintf(buf, n, "letter block: \"%s\" \"%s\" entry=%s expected %s", q[0], q[1], entry ? "array" : "fasta-file", want == ALN_BIOTYPE_DNA ? "nucleotide" : "protein");
                return;
        }
        build_case(id, &c);
        snprintf(buf, n, "shared=%d U=%d protein-only=%d other=%d non-residue=%d entry=%s seqs=%d first=\"%.60s\" second=\"%.60s\"", c.v.s, c.v.u,
                 c.v.p, c.v.o, c.nonres, c.entry == 0 ? "fasta-file" : (c.nonres ? "clustal-file" : "array"), c.nseq, c.seqs[0], c.seqs[1]);
}

int vh_case(uint64_t id, int tier)
{
        struct kcase c;
        struct msa* m = NULL;
        int want, rc, k;
        (void)tier;
        if(id >= NVEC * NFACT * NARR * NENTRY){
                char q[2][32];
                int entry;
                letter_case(id - NVEC * NFACT * NARR * NENTRY, q, &want, &entry);
                if(entry){
                        char* seq[2];
                        int len[2];
                        for(k = 0; k < 2; k++){
                                len[k] = (int)strlen(q[k]);
                                q[k][len[k]] = want == ALN_BIOTYPE_DNA ? 'W' : 'A';
                                seq[k] = q[k];
                        }
                        rc = kalign_arr_to_msa(seq, len, 2, &m);
                }else{
                        char txt[256];
                        const char* path = vh_tmp("k.in");
                        size_t o = (size_t)snprintf(txt, sizeof txt, ">s0\n%s\n>s1\n%s\n", q[0], q[1]);
                        vh_write_file(path, txt, o);
                        rc = kalign_read_input((char*)path, &m, 1);
                }
                if(rc != OK || !m){
                        vh_fail("sem:kind.read-failed", "input could not be read");
                }else if(m->biotype != want){
                        vh_fail(want == ALN_BIOTYPE_DNA ? "sem:kind.nucleotide-premise.one-or-two-letters" : "sem:kind.protein-premise.one-letter",
                                "detected as %s, premise says %s", m->biotype == ALN_BIOTYPE_DNA ? "nucleotide" : (m->biotype == ALN_BIOTYPE_PROTEIN ? "protein" : "undefined"),
                                want == ALN_BIOTYPE_DNA ? "nucleotide" : "protein");
                }else{
                        vh_count("nontrivial_mixed_composition");
                }
                if(m){
                        kalign_free_msa(m);
                }
                return VH_OK;
        }
        build_case(id, &c);
        want = premise(&c.v) == 1 ? ALN_BIOTYPE_DNA : ALN_BIOTYPE_PROTEIN;
        if(c.entry == 1 && c.nonres == 0){
                char* seq[3];
                int len[3];
                for(k = 0; k < c.nseq; k++){
                        /* (pointer, length) slices: the byte after each sequence is not a terminator but, depending on the premise,
                           a letter of the other kind - only the first len[k] bytes are the sequence */
                        len[k] = (int)strlen(c.seqs[k]);
                        c.seqs[k][len[k]] = want == ALN_BIOTYPE_DNA ? 'W' : 'A';
                        c.seqs[k][len[k] + 1] = 0;
                        seq[k] = c.seqs[k];
                }
                rc = kalign_arr_to_msa(seq, len, c.nseq, &m);
        }else{
                char txt[8192];
                size_t o = 0;
                const char* path = vh_tmp("k.in");
                if(c.entry == 0){
                        for(k = 0; k < c.nseq; k++){
                                o += (size_t)snprintf(txt + o, sizeof txt - o, ">%s\n%s\n", c.names[k], c.seqs[k]);
                        }
                }else{
                        /* a Clustal-style rendering: equal-length rows are not required by the reader; padding is part of the presentation */
                        o += (size_t)snprintf(txt + o, sizeof txt - o, "CLUSTAL W (1.83) multiple sequence alignment\n\n");
                        for(k = 0; k < c.nseq; k++){
                                o += (size_t)snprintf(txt + o, sizeof txt - o, "%-12s%s\n", c.names[k], c.seqs[k]);
                        }
                }
                vh_write_file(path, txt, o);
                rc = kalign_read_input((char*)path, &m, 1);
        }
        if(rc != OK || !m){
                vh_fail("sem:kind.read-failed", "input could not be read");
        }else if(m->biotype != want){
                const char* sig = want == ALN_BIOTYPE_DNA ? (c.nonres ? "sem:kind.nucleotide-premise-with-nonresidue-characters" : "sem:kind.nucleotide-premise")
                                                           : (c.v.u ? "sem:kind.protein-premise-with-U" : "sem:kind.protein-premise");
                vh_fail(sig, "detected as %s, premise says %s", m->biotype == ALN_BIOTYPE_DNA ? "nucleotide" : (m->biotype == ALN_BIOTYPE_PROTEIN ? "protein" : "undefined"),
                        want == ALN_BIOTYPE_DNA ? "nucleotide" : "protein");
        }else{
                if(want == ALN_BIOTYPE_PROTEIN && c.v.p * 3 <= (c.v.s + c.v.u + c.v.p + c.v.o)){
                        vh_count("near_threshold_protein_cases");
                }
                if(c.v.u > 0 || c.nonres > 0 || c.v.o > 0){
                        vh_count("nontrivial_mixed_composition");
                }
        }
        if(m){
                kalign_free_msa(m);
        }
        return VH_OK;
}
