/* C07 - the DP kernels return the optimum whenever it is certifiably unique (robust certificate, oracle/gotoh.h). */
#include "vh.h"
#include "kx.h"
#include "alphabet.h"
#include "../oracle/gotoh.h"
#include "../oracle/editdist.h"
#include "shapes.h"

const char* vh_property = "C07";

#ifndef C07_THREADS
#define C07_THREADS 1
#endif

struct cfg { int type; float gpo, gpe, tgpe; };
static const struct cfg DCFG[] = {
        {KALIGN_TYPE_DNA, -1, -1, -1}, {KALIGN_TYPE_DNA_INTERNAL, -1, -1, -1}, {KALIGN_TYPE_RNA, -1, -1, -1},
        {KALIGN_TYPE_DNA, 1, 7, 3}, {KALIGN_TYPE_DNA, 7, 1, 0}, {KALIGN_TYPE_DNA, 3, 3, 3}, {KALIGN_TYPE_DNA_INTERNAL, 1, 1, 1},
        {KALIGN_TYPE_DNA, 0.5f, 2, 0}, {KALIGN_TYPE_DNA, 12, 1, 2}, {KALIGN_TYPE_DNA, 0, 2, 1},
};
static const struct cfg PCFG[] = {
        {KALIGN_TYPE_PROTEIN, -1, -1, -1}, {KALIGN_TYPE_PROTEIN_DIVERGENT, -1, -1, -1},
        {KALIGN_TYPE_PROTEIN, 1, 7, 3}, {KALIGN_TYPE_PROTEIN, 7, 1, 0}, {KALIGN_TYPE_PROTEIN, 3, 3, 3}, {KALIGN_TYPE_PROTEIN_DIVERGENT, 1, 1, 1},
        {KALIGN_TYPE_PROTEIN, 0.5f, 2, 0}, {KALIGN_TYPE_PROTEIN_DIVERGENT, 12, 1, 2}, {KALIGN_TYPE_PROTEIN, 0, 2, 1},
};
/* the last configuration of each list has gpo = 0: the two conventions of the certificate coincide there, so optima decided by small
   score differences (the ambiguity letters: s(.,X) in {0,-1,-2}) can be certified */
#define NDC 10
#define NPC 9

/* sections */
static int LD(int tier) { return tier ? 5 : 4; }        /* {A,C,G} */
static int LB(int tier) { return tier ? 7 : 6; }        /* {A,C} */
static int LP(int tier) { return tier ? 4 : 3; }        /* {L,K,W} */
static uint64_t sq(uint64_t x) { return x * x; }
static uint64_t secA(int tier) { return sq(kx_count_strings(3, 1, LD(tier))) * NDC; }
static uint64_t secB(int tier) { return sq(kx_count_strings(2, 1, LB(tier))) * NDC; }
static uint64_t secC(int tier) { return sq(kx_count_strings(3, 1, LP(tier))) * NPC; }
/* planted: 3 flank pairs x 39 insert contents x 5 positions x 4 substitution patterns x 16 overhangs x configs */
#define NPLANT (3 * 39 * 5 * 4 * 16)
static uint64_t secD(int tier) { (void)tier; return (uint64_t)NPLANT * (NDC + NPC); }
/* long: base lengths x scripts x configs */
static const int LONGLEN[] = {480, 495, 499, 500, 501, 505, 520, 1000, 1050, 1100};
#define NLONGSCRIPT 6
#define NLONGCFG 7
static uint64_t secE(int tier) { (void)tier; return (uint64_t)10 * NLONGSCRIPT * NLONGCFG; }

/* G: long terminal overhangs: a shared core with overhangs of 5..60 residues (letters that do not occur in the core) at either end of either sequence */
static const int OVL[5] = {5, 10, 20, 40, 60};
#define NOVER (3 * 4 * 5 * 5)
static uint64_t secG(int tier) { (void)tier; return (uint64_t)NOVER * (NDC + NPC); }

/* H: the ambiguity letters (last column of the substitution tables): pairs of strings over {C,A,X} (protein) and {A,C,N} (nucleotide), length <= 3 [4], each between one of three pairs of flanks */
static int LH(int tier) { return tier ? 4 : 3; }
#define NRUN (2 * 3 * 2)  /* runs: C^k A^k or A^k C^k (k = 2..4) against X^k (protein; nucleotides: A^k C^k against N^k), either as a or as b */
static uint64_t secH(int tier) { return (sq(kx_count_strings(3, 1, LH(tier))) + NRUN) * 3 * (NPC + NDC); }

/* I: indel family.  kind 0: an insertion of 8/16/24/40 residues that ends 1/2/3/5 residues before the right end or starts that far
   after the left end of a or of b (a gap of a quarter of the sequence and more next to a terminal); kind 1: two single-residue
   insertions 2..6 residues apart (a gap that could be split or merged); kind 2: an insertion of 150 in sequences of about 420
   (spans the middle rows of two successive divide steps); kind 3: the same strings over {Z,B,L} as section H has over {C,A,X}.
   Configurations: the lists of the kind plus three with gpe far above tgpe. */
static const struct cfg XCFG[3] = {{KALIGN_TYPE_DNA, 2, 40, 1}, {KALIGN_TYPE_DNA, 1, 200, 0}, {KALIGN_TYPE_PROTEIN, 2, 40, 1}};
#define NICFG (NDC + NPC + 3)
#define NI0 (4 * 4 * 2 * 2)
#define NI1 (5 * 2)
#define NI2 4
#define NI3 (39 * 39)
static uint64_t secI(int tier) { (void)tier; return (uint64_t)(NI0 + NI1 + NI2 + NI3) * 3 * NICFG; }

uint64_t vh_total(int tier)
{
#if C07_THREADS > 1
        return secE(tier);
#else
        return secA(tier) + secB(tier) + secC(tier) + secD(tier) + secE(tier) + secG(tier) + secH(tier) + secI(tier);
#endif
}

struct pcase { char* a; char* b; struct cfg c; int protein; int sec; };

static const char* FLANK[3][2] = {{"ACGTTGCAAC", "GGATCCATGA"}, {"TTGACCAGTA", "CATGGTACCT"}, {"GATTACAGAT", "TACACCGGTT"}};
static const char* PFLANK[3][2] = {{"LKWDELKWAV", "GGSTDEKLWA"}, {"WWDEKKLAVG", "STDEGLKWAL"}, {"AVLKDEWGST", "KLWDAVGELS"}};

static void decode(uint64_t id, int tier, struct pcase* p)
{
        char buf[16], buf2[16];
        memset(p, 0, sizeof *p);
#if C07_THREADS > 1
        id += secA(tier) + secB(tier) + secC(tier) + secD(tier);
#endif
        if(id >= secA(tier) + secB(tier) + secC(tier) + secD(tier) + secE(tier) + secG(tier) + secH(tier)){
                uint64_t x = id - (secA(tier) + secB(tier) + secC(tier) + secD(tier) + secE(tier) + secG(tier) + secH(tier));
                int ci = (int)(x % NICFG), fl, k, i, o = 0;
                static char A[700], B[700], ins[200];
                const char* f1;
                const char* f2;
                const char* alpha;
                uint64_t st;
                x /= NICFG;
                fl = (int)(x % 3);
                k = (int)(x / 3);
                if(ci < NPC){
                        p->protein = 1;
                        p->c = PCFG[ci];
                }else if(ci < NPC + NDC){
                        p->protein = 0;
                        p->c = DCFG[ci - NPC];
                }else{
                        p->c = XCFG[ci - NPC - NDC];
                        p->protein = (ci - NPC - NDC) == 2;
                }
                f1 = p->protein ? PFLANK[fl][0] : FLANK[fl][0];
                f2 = p->protein ? PFLANK[fl][1] : FLANK[fl][1];
                alpha = p->protein ? "FIMRCHNY" : "ACGT";
                st = 0x1DE1 + (uint64_t)k * 7 + (uint64_t)fl;
                p->sec = 7;
                if(k < NI0){
                        static const int IL[4] = {8, 16, 24, 40}, IT[4] = {1, 2, 3, 5};
                        int L = IL[k % 4], t = IT[(k / 4) % 4], left = (k / 16) % 2, inb = k / 32;
                        char core[64];
                        int cl;
                        snprintf(core, sizeof core, "%s%s%s", f1, f2, f1);      /* 30 residues */
                        cl = (int)strlen(core);
                        sh_random_seq(&st, alpha, L, ins);
                        /* the insertion sits t residues inside the left or the right end of the longer sequence */
                        for(i = 0; i < cl; i++){
                                if((left && i == t) || (!left && i == cl - t)){
                                        memcpy(A + o, ins, (size_t)L);
                                        o += L;
                                }
                                A[o++] = core[i];
                        }
                        A[o] = 0;
                        strcpy(B, core);
                        p->a = strdup(inb ? B : A);
                        p->b = strdup(inb ? A : B);
                        return;
                }
                k -= NI0;
                if(k < NI1){
                        int ml = 2 + k % 5, inb = k / 5;
                        /* F1 x M y F2 against F1 M F2: x, y do not occur next to them; M = the first ml residues of F2 reversed */
                        o = (int)snprintf(A, sizeof A, "%s%c", f1, p->protein ? 'Y' : 'T');
                        for(i = 0; i < ml; i++){
                                A[o++] = f2[ml - 1 - i];
                        }
                        A[o++] = p->protein ? 'G' : 'A';
                        snprintf(A + o, sizeof A - (size_t)o, "%s", f2);
                        o = (int)snprintf(B, sizeof B, "%s", f1);
                        for(i = 0; i < ml; i++){
                                B[o++] = f2[ml - 1 - i];
                        }
                        snprintf(B + o, sizeof B - (size_t)o, "%s", f2);
                        p->a = strdup(inb ? B : A);
                        p->b = strdup(inb ? A : B);
                        return;
                }
                k -= NI1;
                if(k < NI2){
                        /* a = P(100) INS(150) Q(170); b = P Q TAIL(160)  (k & 1: roles exchanged; k & 2: INS of 90) */
                        static char P[128], Q[200], T[200];
                        int il = (k & 2) ? 90 : 150;
                        sh_random_seq(&st, p->protein ? "LKWAVDEGST" : "ACGT", 100, P);
                        sh_random_seq(&st, p->protein ? "LKWAVDEGST" : "ACGT", 170, Q);
                        sh_random_seq(&st, alpha, il, ins);
                        sh_random_seq(&st, alpha, 160, T);
                        snprintf(A, sizeof A, "%s%s%s", P, ins, Q);
                        snprintf(B, sizeof B, "%s%s%s", P, Q, T);
                        p->a = strdup((k & 1) ? B : A);
                        p->b = strdup((k & 1) ? A : B);
                        p->sec = 4;     /* judged like the long family (fewer group shapes, longer limit) */
                        return;
                }
                k -= NI2;
                {
                        uint64_t S = 39;
                        char m1[8], m2[8];
                        const char* zalpha = p->protein ? "ZBL" : "ACG";
                        kx_nth_string((uint64_t)k % S, zalpha, 1, 3, m1);
                        kx_nth_string((uint64_t)k / S, zalpha, 1, 3, m2);
                        snprintf(A, sizeof A, "%s%s%s", f1, m1, f2);
                        snprintf(B, sizeof B, "%s%s%s", f1, m2, f2);
                        p->a = strdup(A);
                        p->b = strdup(B);
                        return;
                }
        }
        if(id >= secA(tier) + secB(tier) + secC(tier) + secD(tier) + secE(tier) + secG(tier)){
                uint64_t x = id - (secA(tier) + secB(tier) + secC(tier) + secD(tier) + secE(tier) + secG(tier));
                uint64_t S = kx_count_strings(3, 1, LH(tier));
                int ci = (int)(x % (NPC + NDC)), fl;
                char A[64], B[64];
                x /= (NPC + NDC);
                fl = (int)(x % 3);
                x /= 3;
                p->protein = ci < NPC;
                p->c = p->protein ? PCFG[ci] : DCFG[ci - NPC];
                if(x >= S * S){
                        /* runs: the ambiguity letters must go under the run they score best with */
                        int r = (int)(x - S * S), order = r & 1, k = 2 + (r >> 1) % 3, swap = r / 6, q;
                        char hi = p->protein ? 'A' : 'A', lo = p->protein ? 'C' : 'C', amb = p->protein ? 'X' : 'N';
                        for(q = 0; q < k; q++){
                                buf[q] = order ? hi : lo;
                                buf[k + q] = order ? lo : hi;
                                buf2[q] = amb;
                        }
                        buf[2 * k] = 0;
                        buf2[k] = 0;
                        if(swap){
                                char t[16];
                                strcpy(t, buf);
                                strcpy(buf, buf2);
                                strcpy(buf2, t);
                        }
                }else{
                kx_nth_string(x % S, p->protein ? "CAX" : "ACN", 1, LH(tier), buf);
                kx_nth_string(x / S, p->protein ? "CAX" : "ACN", 1, LH(tier), buf2);
                }
                /* the short strings sit between two flanks (protein flanks also fix the kind: C and A alone read as nucleotides) */
                snprintf(A, sizeof A, "%s%s%s", p->protein ? PFLANK[fl][0] : FLANK[fl][0], buf, p->protein ? PFLANK[fl][1] : FLANK[fl][1]);
                snprintf(B, sizeof B, "%s%s%s", p->protein ? PFLANK[fl][0] : FLANK[fl][0], buf2, p->protein ? PFLANK[fl][1] : FLANK[fl][1]);
                p->a = strdup(A);
                p->b = strdup(B);
                p->sec = 6;
                return;
        }
        if(id < secA(tier)){
                uint64_t S = kx_count_strings(3, 1, LD(tier));
                p->c = DCFG[id % NDC];
                id /= NDC;
                kx_nth_string(id % S, "ACG", 1, LD(tier), buf);
                kx_nth_string(id / S, "ACG", 1, LD(tier), buf2);
                p->a = strdup(buf);
                p->b = strdup(buf2);
                p->sec = 0;
                return;
        }
        id -= secA(tier);
        if(id < secB(tier)){
                uint64_t S = kx_count_strings(2, 1, LB(tier));
                p->c = DCFG[id % NDC];
                id /= NDC;
                kx_nth_string(id % S, "AC", 1, LB(tier), buf);
                kx_nth_string(id / S, "AC", 1, LB(tier), buf2);
                p->a = strdup(buf);
                p->b = strdup(buf2);
                p->sec = 1;
                return;
        }
        id -= secB(tier);
        if(id < secC(tier)){
                uint64_t S = kx_count_strings(3, 1, LP(tier));
                p->c = PCFG[id % NPC];
                id /= NPC;
                kx_nth_string(id % S, "LKW", 1, LP(tier), buf);
                kx_nth_string(id / S, "LKW", 1, LP(tier), buf2);
                p->a = strdup(buf);
                p->b = strdup(buf2);
                p->protein = 1;
                p->sec = 2;
                return;
        }
        id -= secC(tier);
        if(id < secD(tier)){
                int ci = (int)(id % (NDC + NPC));
                uint64_t x = id / (NDC + NPC);
                int fl = (int)(x % 3), ins, pos, sub, ov;
                const char* alpha;
                const char* f1;
                const char* f2;
                char base[64], a[96], b[96], insbuf[8];
                int la, i, o;
                x /= 3;
                ins = (int)(x % 39);
                x /= 39;
                pos = (int)(x % 5);
                x /= 5;
                sub = (int)(x % 4);
                ov = (int)(x / 4);
                p->protein = ci >= NDC;
                p->c = p->protein ? PCFG[ci - NDC] : DCFG[ci];
                alpha = p->protein ? "LKW" : "ACG";
                f1 = p->protein ? PFLANK[fl][0] : FLANK[fl][0];
                f2 = p->protein ? PFLANK[fl][1] : FLANK[fl][1];
                snprintf(base, sizeof base, "%s%s", f1, f2);
                la = (int)strlen(base);
                kx_nth_string((uint64_t)ins, alpha, 1, 3, insbuf);
                /* a = base with overhangs; b = base with the insertion at one of 5 positions and 0..2 substitutions */
                o = 0;
                for(i = 0; i < (ov & 3); i++){
                        a[o++] = alpha[i % 3];          /* leading overhang on a */
                }
                memcpy(a + o, base, (size_t)la);
                o += la;
                a[o] = 0;
                {
                        int at = 2 + pos * (la - 4) / 4;
                        o = 0;
                        for(i = 0; i < la; i++){
                                if(i == at){
                                        memcpy(b + o, insbuf, strlen(insbuf));
                                        o += (int)strlen(insbuf);
                                }
                                b[o] = base[i];
                                if((sub & 1) && i == 1){
                                        b[o] = base[i] == alpha[0] ? alpha[1] : alpha[0];
                                }
                                if((sub & 2) && i == la - 2){
                                        b[o] = base[i] == alpha[0] ? alpha[1] : alpha[0];
                                }
                                o++;
                        }
                        for(i = 0; i < (ov >> 2); i++){
                                b[o++] = alpha[(i + 1) % 3];    /* trailing overhang on b */
                        }
                        b[o] = 0;
                }
                p->a = strdup(a);
                p->b = strdup(b);
                p->sec = 3;
                return;
        }
        id -= secD(tier);
        if(id >= secE(tier)){
                uint64_t x = id - secE(tier);
                int ci = (int)(x % (NDC + NPC)), fl, layout, la, lb, i, o;
                char a[200], b[200], core[64];
                const char* f1;
                const char* f2;
                x /= (NDC + NPC);
                fl = (int)(x % 3); x /= 3;
                layout = (int)(x % 4); x /= 4;
                la = OVL[x % 5];
                lb = OVL[x / 5];
                p->protein = ci >= NDC;
                p->c = p->protein ? PCFG[ci - NDC] : DCFG[ci];
                f1 = p->protein ? PFLANK[fl][0] : "ACGACCGAGCAGGACACGCA";
                f2 = p->protein ? PFLANK[fl][1] : (fl == 1 ? "GGACAGCAAC" : (fl == 2 ? "CAGGCAACGA" : "AGCAGGCCAG"));
                snprintf(core, sizeof core, "%s%s", f1, f2);
                /* overhang letters: T for nucleotides (the cores above contain no T), P/Q/H/N/Y/F/I/M/R/C for proteins (not in the flanks) */
                /* layout 0: a = core + tail, b = head + core; 1: a = head + core, b = core + tail; 2: a = core + tail, b = core; 3: a = head + core + tail, b = core */
                o = 0;
                if(layout == 1 || layout == 3){
                        for(i = 0; i < la; i++){
                                a[o++] = p->protein ? "PQHNY"[i % 5] : 'T';
                        }
                }
                memcpy(a + o, core, strlen(core));
                o += (int)strlen(core);
                if(layout == 0 || layout == 2 || layout == 3){
                        for(i = 0; i < (layout == 3 ? lb : la); i++){
                                a[o++] = p->protein ? "FIMRC"[i % 5] : 'T';
                        }
                }
                a[o] = 0;
                o = 0;
                if(layout == 0){
                        for(i = 0; i < lb; i++){
                                b[o++] = p->protein ? "PQHNY"[i % 5] : 'T';
                        }
                }
                memcpy(b + o, core, strlen(core));
                o += (int)strlen(core);
                if(layout == 1){
                        for(i = 0; i < lb; i++){
                                b[o++] = p->protein ? "FIMRC"[i % 5] : 'T';
                        }
                }
                b[o] = 0;
                p->a = strdup(a);
                p->b = strdup(b);
                p->sec = 5;
                return;
        }
        {
                /* long: base of length LONGLEN; b = base with a script of edits */
                int ci = (int)(id % NLONGCFG);
                uint64_t x = id / NLONGCFG;
                int script = (int)(x % NLONGSCRIPT);
                int len = LONGLEN[x / NLONGSCRIPT];
                static const struct cfg LC[NLONGCFG] = {{KALIGN_TYPE_DNA, -1, -1, -1}, {KALIGN_TYPE_DNA_INTERNAL, -1, -1, -1}, {KALIGN_TYPE_DNA, 3, 3, 3}, {KALIGN_TYPE_PROTEIN, -1, -1, -1},
                                                    {KALIGN_TYPE_DNA, 1, 7, 3}, {KALIGN_TYPE_DNA_INTERNAL, 0.5f, 2, 1}, {KALIGN_TYPE_PROTEIN, 1, 3, 1}};
                uint64_t st = 9001 + (uint64_t)len * 13 + (uint64_t)vh_seed;
                char* a = malloc((size_t)len + 64);
                char* b = malloc((size_t)len + 64);
                int i, o = 0;
                p->c = LC[ci];
                p->protein = (ci == 3 || ci == 6);
                sh_random_seq(&st, p->protein ? "LKWAVDEGSTPQ" : "ACGT", len, a);
                for(i = 0; i < len; i++){
                        int at1 = len / 3, at2 = 2 * len / 3, atm = len / 2;
                        if(script == 1 && i == at1){
                                continue;                               /* one deletion */
                        }
                        if(script == 2 && (i == at1 || i == at1 + 1 || i == at1 + 2)){
                                continue;                               /* deletion of 3 */
                        }
                        if(script == 3 && i == atm){
                                b[o++] = a[0];
                                b[o++] = a[1];                          /* insertion of 2 at the middle (the Hirschberg split) */
                        }
                        if(script == 4 && (i == at1 || i == at2)){
                                if(i == at1){
                                        continue;
                                }
                                b[o++] = a[2];                          /* one deletion and one insertion */
                        }
                        if(script == 5 && i < 3){
                                continue;                               /* leading overhang of a */
                        }
                        b[o++] = a[i];
                        if(script >= 1 && i % 97 == 5 && i > 10 && i < len - 10){
                                b[o - 1] = (a[i] == a[0]) ? a[1] : a[0];        /* sparse substitutions */
                        }
                }
                b[o] = 0;
                p->a = a;
                p->b = b;
                p->sec = 4;
        }
}

void vh_describe(uint64_t id, int tier, char* buf, size_t n)
{
        struct pcase p;
        decode(id, tier, &p);
        if(strlen(p.a) <= 40){
                snprintf(buf, n, "type=%s gp=(%g,%g,%g) a=\"%s\" b=\"%s\"", kx_type_name(p.c.type), p.c.gpo, p.c.gpe, p.c.tgpe, p.a, p.b);
        }else{
                snprintf(buf, n, "type=%s gp=(%g,%g,%g) a=<%d residues> b=<%d residues> (section %d)", kx_type_name(p.c.type), p.c.gpo, p.c.gpe, p.c.tgpe,
                         (int)strlen(p.a), (int)strlen(p.b), p.sec);
        }
        free(p.a);
        free(p.b);
}

/* column-type string of the pairwise alignment of rows ra, rb (columns where both are gaps are dropped) */
static int cols_of(const char* ra, const char* rb, unsigned char* out)
{
        int k = 0, i;
        for(i = 0; ra[i] && rb[i]; i++){
                if(ra[i] != '-' && rb[i] != '-'){
                        out[k++] = G_M;
                }else if(ra[i] != '-'){
                        out[k++] = G_X;
                }else if(rb[i] != '-'){
                        out[k++] = G_Y;
                }
        }
        return k;
}

static void cols_str(const unsigned char* c, int n, char* out, int max)
{
        int i;
        for(i = 0; i < n && i < max - 1; i++){
                out[i] = "MXY"[c[i]];
        }
        out[i] = 0;
}

int vh_case(uint64_t id, int tier)
{
        struct pcase p;
        struct aln_param* ap = NULL;
        struct alphabet* al;
        struct g_ctx g;
        struct g_cert cert;
        unsigned char* ca;
        unsigned char* cb;
        int i, n, m, ret = VH_OK;
        double delta;
        decode(id, tier, &p);
        n = (int)strlen(p.a);
        m = (int)strlen(p.b);
        if(aln_param_init(&ap, p.protein ? ALN_BIOTYPE_PROTEIN : ALN_BIOTYPE_DNA, 1, p.c.type, p.c.gpo, p.c.gpe, p.c.tgpe) != OK){
                vh_fail("sem:config-rejected", "aln_param_init rejects an admissible configuration");
                free(p.a);
                free(p.b);
                return VH_OK;
        }
        al = create_alphabet(p.protein ? ALPHA_ambigiousPROTEIN : ALPHA_defDNA);
        ca = malloc((size_t)n + 1);
        cb = malloc((size_t)m + 1);
        for(i = 0; i < n; i++){
                ca[i] = (unsigned char)al->to_internal[(int)p.a[i]];
        }
        for(i = 0; i < m; i++){
                cb[i] = (unsigned char)al->to_internal[(int)p.b[i]];
        }
        g.n = n;
        g.m = m;
        g.a = ca;
        g.b = cb;
        g.subm = ap->subm;
        /* penalties: a value the configuration gives (>= 0) is the one selected, whatever aln_param_init makes of it; the
           type's defaults are taken from aln_param_init (C09 decides that table) */
        g.gpo = p.c.gpo >= 0.0f ? p.c.gpo : ap->gpo;
        g.gpe = p.c.gpe >= 0.0f ? p.c.gpe : ap->gpe;
        g.tgpe = p.c.tgpe >= 0.0f ? p.c.tgpe : ap->tgpe;
        if(p.sec == 4){
                vh_case_timeout = 120;
                alarm(120);
        }
        g_certify(&g, 0.0, &cert);
        /* the centre-preference term of the meetup is at most len_b/2000 at the level where two alignments first diverge
           (the f+b values compared there are exact DP values); 0.004 (n+m) is more than 8 times that */
        delta = g.gpo + 1.0 + 0.004 * (double)(n + m) + 1e-5 * fabs(cert.s_lo);
        cert.certified = cert.representable && cert.margin > delta;
        /* the detected kind must be the intended one, else the configuration is not the one certified */
        if(cert.certified){
                static const int GP[9][2] = {{1, 1}, {2, 1}, {1, 2}, {2, 2}, {3, 1}, {1, 3}, {3, 2}, {2, 3}, {3, 3}};
                int shapes = 1, sh;
                int groups_ok = strcmp(p.a, p.b) != 0 && !ed_contained(p.a, p.b, p.protein) && !ed_contained(p.b, p.a, p.protein);
                int diag_a = 1, diag_b = 1;
                if(groups_ok && p.sec != 4){
                        shapes = 9;
                }else if(groups_ok){
                        shapes = 3;
                }
                if(groups_ok && p.sec != 4){
                        /* "a group of identical copies" presupposes that the copies themselves align column by column.  That is certified
                           too: the diagonal must be the certified unique optimum of (a,a) resp. (b,b) under the same configuration (with
                           very cheap gaps and letters that score negatively against themselves - X - it is not); a side that is not
                           certified is used with one copy only */
                        struct g_ctx ga = g, gb = g;
                        struct g_cert ca2, cb2;
                        int q;
                        ga.b = ga.a;
                        ga.m = ga.n;
                        gb.a = gb.b;
                        gb.n = gb.m;
                        g_certify(&ga, 0.0, &ca2);
                        g_certify(&gb, 0.0, &cb2);
                        diag_a = ca2.representable && ca2.margin > g.gpo + 1.0 + 0.008 * (double)n + 1e-5 * fabs(ca2.s_lo) && ca2.ncol == n;
                        for(q = 0; q < ca2.ncol && diag_a; q++){
                                diag_a = ca2.cols[q] == G_M;
                        }
                        diag_b = cb2.representable && cb2.margin > g.gpo + 1.0 + 0.008 * (double)m + 1e-5 * fabs(cb2.s_lo) && cb2.ncol == m;
                        for(q = 0; q < cb2.ncol && diag_b; q++){
                                diag_b = cb2.cols[q] == G_M;
                        }
                        g_cert_free(&ca2);
                        g_cert_free(&cb2);
                        if(!diag_a || !diag_b){
                                vh_count("group_shapes_left_out_copies_not_certified_diagonal");
                        }
                }
                vh_count("certified_cases");
                if(cert.p_has_gap){
                        vh_count("nontrivial_certified_with_gap");
                }
                for(sh = 0; sh < shapes; sh++){
                        int pa = GP[sh][0], pb = GP[sh][1], k;
                        struct kx_set in;
                        if((pa > 1 && !diag_a) || (pb > 1 && !diag_b)){
                                continue;
                        }
                        char** rows = NULL;
                        int alen = 0, rc;
                        unsigned char* got;
                        kx_set_init(&in);
                        for(k = 0; k < pa; k++){
                                kx_set_addf(&in, p.a, "a%d", k);
                        }
                        for(k = 0; k < pb; k++){
                                kx_set_addf(&in, p.b, "b%d", k);
                        }
                        vh_count("library_calls");
                        rc = kx_kalign_arr(&in, C07_THREADS, p.c.type, p.c.gpo, p.c.gpe, p.c.tgpe, &rows, &alen);
                        if(rc != OK){
                                vh_fail("sem:run-failed", "kalign() failed (groups %dx%d)", pa, pb);
                                kx_set_free(&in);
                                break;
                        }
                        /* copies must have identical rows */
                        for(k = 1; k < pa; k++){
                                if(strcmp(rows[0], rows[k]) != 0){
                                        vh_fail("sem:copies-differ", "copies of a get different rows in a %dx%d group alignment", pa, pb);
                                }
                        }
                        for(k = 1; k < pb; k++){
                                if(strcmp(rows[pa], rows[pa + k]) != 0){
                                        vh_fail("sem:copies-differ", "copies of b get different rows in a %dx%d group alignment", pa, pb);
                                }
                        }
                        got = malloc((size_t)alen + 1);
                        k = cols_of(rows[0], rows[pa], got);
                        if(k != cert.ncol || memcmp(got, cert.cols, (size_t)k) != 0){
                                char gs[120], ws[120], sig[64];
                                cols_str(got, k, gs, sizeof gs);
                                cols_str(cert.cols, cert.ncol, ws, sizeof ws);
                                snprintf(sig, sizeof sig, "sem:not-the-certified-optimum.%s", pa == 1 && pb == 1 ? "seqseq" : ((pa == 1 || pb == 1) ? "seqprofile" : "profileprofile"));
                                vh_fail(sig, "groups %dx%d: kalign returns columns %s%s, the certified unique optimum is %s%s (S_lo(P)=%.3f, best other S_hi=%.3f, margin %.3f > delta %.3f)",
                                        pa, pb, gs, k > 118 ? "..." : "", ws, cert.ncol > 118 ? "..." : "", cert.s_lo, cert.best_other_hi, cert.margin, delta);
                        }
                        free(got);
                        kx_free_rows(rows, in.n);
                        kx_set_free(&in);
                        if(VH->fails_in_case){
                                break;
                        }
                }
                if(p.sec == 4){
                        vh_count("long_certified_cases");
                }
                if(p.sec == 5){
                        vh_count("overhang_certified_cases");
                }
        }else{
                vh_count(cert.representable ? "uncertified_margin_too_small" : "uncertified_adjacent_opposite_gaps");
                ret = VH_SKIP;
        }
        g_cert_free(&cert);
        free(ca);
        free(cb);
        free(al);
        aln_param_free(ap);
        free(p.a);
        free(p.b);
        return ret;
}
