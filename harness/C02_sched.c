/* C02 / C10 - schedule exploration of complete kalign_run executions under vgomp.

   modes
     --mode ref                     (serial build) print the reference output of every input
     --mode info                    print guide-tree shape and scheduling statistics per input
     --mode explore  --input K --threads N --nested 0|1 --bound B --cost 0|1 --policy P --yields MASK
                     --ref HASH --shard i --nshards n [--maxexec M] [--deadline SEC]
     --mode canon    --input K --ref HASH     canonical schedule for every N in 1..64, and twice in one process
     --mode replay   --input K --threads N --nested x --policy P --yields MASK --ref HASH --choices a,b,c,...

   Oracles, evaluated on every execution: (1) final rows == reference bytes of the OpenMP-free build,
   (2) ordering monitor over the hook events (merge after both children complete; meetup after exactly one
   completed forward and one completed backward pass on the same state), (3) C10: the snapshot of each node's
   member gap vectors at MERGE_END equals the projection of the final alignment, (4) no deadlock/horizon,
   (5) sanitizer clean (the process dies otherwise; the supervisor attributes it to the schedule). */
#define _GNU_SOURCE
#include <stdio.h>
#include <stdlib.h>
#include <string.h>
#include <stdint.h>
#include <unistd.h>
#include <sched.h>
#include <stdarg.h>
#include <sys/mman.h>
#include <sys/wait.h>
#include <fcntl.h>
#include <errno.h>
#include "kx.h"
#include "sched_inputs.h"
#include "c10snap.h"
#if defined(HAVE_OPENMP) && !defined(NO_VGOMP)
#define USE_VGOMP 1
#endif
#ifdef USE_VGOMP
#include "explore/explore.h"
#endif

#define Y_MERGE 1
#define Y_KERNEL 2
#define Y_SPLIT 4
#define Y_DM 8

void vg_free_set_nested(int on) __attribute__((weak));

static int out_fd = 1;
static void emit(const char* fmt, ...)
{
        char buf[16384];
        va_list ap;
        int n;
        va_start(ap, fmt);
        n = vsnprintf(buf, sizeof buf - 2, fmt, ap);
        va_end(ap);
        if(n > (int)sizeof buf - 2){
                n = sizeof buf - 2;
        }
        buf[n++] = '\n';
        if(write(out_fd, buf, (size_t)n) < 0){
        }
}

/* ------------------------------------------------------------------ event log + monitors */
struct ev { int ev, a, b, c, strand; const void* p; };
static struct ev* LOG_ = NULL;
static int nlog = 0, caplog = 0;
static int yield_mask = 0;
static int lazy_idle = 1;
static int in_run = 0;

static int tree_tasks = 0;
static int tree_abc[4096][3];

#ifdef USE_VGOMP
static int self_id(void) { return vg_self_id(); }
static void maybe_yield(int ev)
{
        int cls = 0;
        if(ev >= KV_MERGE_BEGIN && ev <= KV_MERGE_END){
                cls = Y_MERGE;
        }else if(ev >= KV_FWD_BEGIN && ev <= KV_MEETUP_END){
                cls = Y_KERNEL;
        }else if(ev >= KV_SPLIT_BEGIN && ev <= KV_SPLIT_END){
                cls = Y_SPLIT;
        }else if(ev == KV_DM_CELL){
                cls = Y_DM;
        }
        if(cls & yield_mask){
                /* Merge and kernel events are scheduling points only while another deferred task is waiting to
                   start or is mid-body.  Otherwise every other strand is blocked or is an idle implicit task
                   (a failed `single`), and preempting the only working strand at each of its events multiplies
                   the space without adding an interleaving of two working strands.  (If the running strand is
                   not a deferred task itself, e.g. a meetup that a broken tree runs without taskwait, the
                   other tasks count, so that case keeps its scheduling points.) */
                if((cls & (Y_MERGE | Y_KERNEL)) && vg_other_runnable_explicit() == 0){
                        return;
                }
                vg_yield();
        }
}
#else
static int self_id(void) { return 0; }
static void maybe_yield(int ev) { (void)ev; }
#endif

static void hook(int ev, int a, int b, int c, const void* p, const void* q)
{
        if(!in_run){
                return;
        }
        if(ev != KV_DM_CELL && ev != KV_SPLIT_ITER){
                if(nlog == caplog){
                        caplog = caplog ? caplog * 2 : 4096;
                        LOG_ = realloc(LOG_, sizeof(*LOG_) * (size_t)caplog);
                }
                LOG_[nlog].ev = ev;
                LOG_[nlog].a = a;
                LOG_[nlog].b = b;
                LOG_[nlog].c = c;
                LOG_[nlog].p = p;
                LOG_[nlog].strand = self_id();
                nlog++;
        }
        if(ev == KV_TREE){
                const struct aln_tasks* t = p;
                int i;
                tree_tasks = t->n_tasks < 4096 ? t->n_tasks : 4096;
                for(i = 0; i < tree_tasks; i++){
                        tree_abc[i][0] = t->list[i]->a;
                        tree_abc[i][1] = t->list[i]->b;
                        tree_abc[i][2] = t->list[i]->c;
                }
        }
        if(ev == KV_MERGE_END){
                take_snapshot(c, (const struct msa*)p);
        }
        (void)q;
        maybe_yield(ev);
}

struct stats {
        long merge_overlap_execs;
        long kernel_overlap_execs;
        long regroup_nodes;
};
static struct stats ST;

/* ordering monitor; returns NULL or a message */
static const char* monitor(int numseq, int* merge_overlap, int* kernel_overlap)
{
        static char msg[256];
        static unsigned char done[8192];
        int open_merges = 0;
        int i;
        struct pm { const void* p; int fe, be, mu, fopen, bopen; } tab[64];
        int ntab = 0;
        memset(done, 0, sizeof done);
        *merge_overlap = 0;
        *kernel_overlap = 0;
        for(i = 0; i < nlog; i++){
                struct ev* e = &LOG_[i];
                struct pm* t = NULL;
                int k;
                if(e->ev >= KV_FWD_BEGIN && e->ev <= KV_MEETUP_END){
                        for(k = 0; k < ntab; k++){
                                if(tab[k].p == e->p){
                                        t = &tab[k];
                                        break;
                                }
                        }
                        if(!t){
                                if(ntab == 64){
                                        ntab = 0;       /* table full: restart (counts stay consistent per pointer in correct runs) */
                                }
                                t = &tab[ntab++];
                                memset(t, 0, sizeof *t);
                                t->p = e->p;
                        }
                }
                switch(e->ev){
                case KV_MERGE_BEGIN:
                        if(e->a >= numseq && e->a < 8192 && !done[e->a]){
                                snprintf(msg, sizeof msg, "merge of node %d began before child node %d was complete", e->c, e->a);
                                return msg;
                        }
                        if(e->b >= numseq && e->b < 8192 && !done[e->b]){
                                snprintf(msg, sizeof msg, "merge of node %d began before child node %d was complete", e->c, e->b);
                                return msg;
                        }
                        if(open_merges > 0){
                                *merge_overlap = 1;
                        }
                        open_merges++;
                        break;
                case KV_MERGE_END:
                        if(e->c < 8192){
                                done[e->c] = 1;
                        }
                        open_merges--;
                        break;
                case KV_FWD_BEGIN:
                        t->fopen++;
                        if(t->bopen){
                                *kernel_overlap = 1;
                        }
                        break;
                case KV_FWD_END:
                        t->fopen--;
                        t->fe++;
                        break;
                case KV_BWD_BEGIN:
                        t->bopen++;
                        if(t->fopen){
                                *kernel_overlap = 1;
                        }
                        break;
                case KV_BWD_END:
                        t->bopen--;
                        t->be++;
                        break;
                case KV_MEETUP_BEGIN:
                        if(t->fopen || t->bopen){
                                snprintf(msg, sizeof msg, "meetup began while a forward/backward pass on the same state was still running");
                                return msg;
                        }
                        if(t->fe != t->mu + 1 || t->be != t->mu + 1){
                                snprintf(msg, sizeof msg, "meetup #%d on a state preceded by %d forward and %d backward passes (expected %d each)",
                                         t->mu + 1, t->fe, t->be, t->mu + 1);
                                return msg;
                        }
                        t->mu++;
                        break;
                default:
                        break;
                }
        }
        return NULL;
}

/* ------------------------------------------------------------------ one execution */
struct outcome {
        uint64_t hash;
        char* text;             /* rows joined by '/' */
        int rc;
        const char* monitor_msg;
        const char* c10_msg;
        int merge_overlap, kernel_overlap;
        uint64_t order_hash;
};

static void run_once(const struct sinput* si, int threads, struct outcome* o)
{
        struct kx_set in;
        struct msa* m;
        int i;
        size_t len = 0, off = 0;
        memset(o, 0, sizeof *o);
        sinput_build(si, &in);
        m = kx_make_msa(&in);
        nlog = 0;
        free_snapshots();
        in_run = 1;
        o->rc = kalign_run(m, threads, si->type, si->gpo, si->gpe, si->tgpe);
        in_run = 0;
        if(o->rc == OK){
                for(i = 0; i < m->numseq; i++){
                        len += strlen(m->sequences[i]->seq) + 1;
                }
                o->text = malloc(len + 1);
                for(i = 0; i < m->numseq; i++){
                        size_t l = strlen(m->sequences[i]->seq);
                        memcpy(o->text + off, m->sequences[i]->seq, l);
                        off += l;
                        o->text[off++] = '/';
                }
                o->text[off] = 0;
                o->hash = 1469598103934665603ULL;
                for(i = 0; i < (int)off; i++){
                        o->hash = (o->hash ^ (unsigned char)o->text[i]) * 1099511628211ULL;
                }
                o->monitor_msg = monitor(m->numseq, &o->merge_overlap, &o->kernel_overlap);
                {
                        long rg = 0;
                        o->c10_msg = check_c10(m, &in, &rg);
                        ST.regroup_nodes += rg;
                }
        }
        o->order_hash = 1469598103934665603ULL;
        for(i = 0; i < nlog; i++){
                o->order_hash = (o->order_hash ^ (uint64_t)(LOG_[i].ev * 131 + LOG_[i].c)) * 1099511628211ULL;
        }
        kalign_free_msa(m);
        kx_set_free(&in);
}

static void print_tree(int numseq)
{
        char buf[4000];
        int o = 0, i;
        int lo = numseq, j;
        /* ascending node label = children before parents */
        for(j = 0; j < tree_tasks && o < 3900; j++, lo++){
                for(i = 0; i < tree_tasks; i++){
                        if(tree_abc[i][2] == lo){
                                o += snprintf(buf + o, sizeof buf - (size_t)o, "(%d,%d->%d)", tree_abc[i][0], tree_abc[i][1], tree_abc[i][2]);
                        }
                }
        }
        emit("I tree numseq=%d tasks=%d %s", numseq, tree_tasks, tree_tasks <= 12 ? buf : "(large)");
}

#ifdef USE_VGOMP
/* ------------------------------------------------------------------ exploration */
struct xuser {
        const struct sinput* si;
        int threads, nested;
        uint64_t ref;
        long distinct_orders;
        uint64_t seen_orders[4096];
        char failmsg[512];
        char failsig[64];
};

/* shared with the supervisor so that a crash can be attributed to a schedule */
struct shared_sched {
        volatile int n;
        volatile uint16_t c[20000];
        volatile long executions;
};
static struct shared_sched* SH;

static int sh_choose(void* ctx, int n, const int* ids, int cur_enabled, int kind)
{
        int c = ex_choose(ctx, n, ids, cur_enabled, kind);
        if(SH && SH->n < 20000){
                SH->c[SH->n] = (uint16_t)c;
                SH->n = SH->n + 1;
        }
        return c;
}

static void choices_to_str(const struct ex_state* ex, char* buf, size_t n)
{
        size_t o = 0;
        int i;
        buf[0] = 0;
        for(i = 0; i < ex->npts && o + 8 < n; i++){
                o += (size_t)snprintf(buf + o, n - o, "%s%d", i ? "," : "", ex->pts[i].chosen);
        }
}

static struct ex_state* g_ex;
static void fatal_cb(void* ctx, const char* what)
{
        static char cs[120000];
        struct ex_state* ex = ctx;
        choices_to_str(ex, cs, sizeof cs);
        emit("F sched sem:%s scheduler reports %s :: choices=%s", what, what, cs);
        _exit(3);
}

static int xrun(struct ex_state* ex, void* user)
{
        struct xuser* u = user;
        struct vg_config cfg;
        struct outcome o;
        int bad = 0;
        cfg.choose = sh_choose;
        cfg.fatal = fatal_cb;
        cfg.ctx = ex;
        cfg.nested = u->nested;
        cfg.horizon = 5000000;
        cfg.lazy_idle = lazy_idle;
        if(SH){
                SH->n = 0;
                SH->executions++;
        }
        vg_begin(&cfg);
        run_once(u->si, u->threads, &o);
        vg_end();
        if(o.rc != OK){
                snprintf(u->failmsg, sizeof u->failmsg, "kalign_run failed under this schedule");
                snprintf(u->failsig, sizeof u->failsig, "sem:run-failed");
                bad = 1;
        }else if(o.hash != u->ref){
                snprintf(u->failmsg, sizeof u->failmsg, "alignment differs from the OpenMP-free build: %.300s", o.text);
                snprintf(u->failsig, sizeof u->failsig, "sem:bytes-differ");
                bad = 1;
        }else if(o.monitor_msg){
                snprintf(u->failmsg, sizeof u->failmsg, "%s", o.monitor_msg);
                snprintf(u->failsig, sizeof u->failsig, "sem:ordering");
                bad = 1;
        }else if(o.c10_msg){
                snprintf(u->failmsg, sizeof u->failmsg, "%s", o.c10_msg);
                snprintf(u->failsig, sizeof u->failsig, "sem:c10-projection");
                bad = 1;
        }
        if(o.merge_overlap){
                ST.merge_overlap_execs++;
        }
        if(o.kernel_overlap){
                ST.kernel_overlap_execs++;
        }
        {
                int i;
                int slot = (int)(o.order_hash % 4096);
                for(i = 0; i < 8; i++){
                        int s = (slot + i) % 4096;
                        if(u->seen_orders[s] == o.order_hash){
                                break;
                        }
                        if(u->seen_orders[s] == 0){
                                u->seen_orders[s] = o.order_hash;
                                u->distinct_orders++;
                                break;
                        }
                }
        }
        free(o.text);
        return bad;
}
#endif

static int arg_int(int argc, char** argv, const char* name, int dflt)
{
        int i;
        for(i = 1; i + 1 < argc; i++){
                if(!strcmp(argv[i], name)){
                        return atoi(argv[i + 1]);
                }
        }
        return dflt;
}

static const char* arg_str(int argc, char** argv, const char* name, const char* dflt)
{
        int i;
        for(i = 1; i + 1 < argc; i++){
                if(!strcmp(argv[i], name)){
                        return argv[i + 1];
                }
        }
        return dflt;
}

int main(int argc, char** argv)
{
        const char* mode = arg_str(argc, argv, "--mode", "info");
        int K = arg_int(argc, argv, "--input", 0);
        int devnull;
        out_fd = dup(1);
        devnull = open("/dev/null", O_WRONLY);
        dup2(devnull, 1);
        kalign_verif_hook = hook;
        if(!strcmp(mode, "ref")){
                for(K = 0; K < sinput_count(); K++){
                        struct outcome o;
                        const struct sinput* si = sinput_get(K);
                        run_once(si, 1, &o);
                        emit("R %d %llu rc=%d %s %s", K, (unsigned long long)o.hash, o.rc, si->name,
                             (o.monitor_msg || o.c10_msg) ? "MONITOR-FAILS-ON-SERIAL" : "ok");
                        if(o.monitor_msg){
                                emit("E serial monitor: %s", o.monitor_msg);
                        }
                        if(o.c10_msg){
                                emit("E serial c10: %s", o.c10_msg);
                        }
                        free(o.text);
                }
                return 0;
        }
        if(!strcmp(mode, "plain")){
                /* free-running pass (TSan build / real libgomp build): no hook, real threads */
                const struct sinput* si = sinput_get(K);
                int threads = arg_int(argc, argv, "--threads", 2);
                int reps = arg_int(argc, argv, "--reps", 1);
                uint64_t ref = strtoull(arg_str(argc, argv, "--ref", "0"), NULL, 10);
                int r;
                kalign_verif_hook = NULL;
                if(vg_free_set_nested){
                        vg_free_set_nested(arg_int(argc, argv, "--nested", 0));
                }
                for(r = 0; r < reps; r++){
                        struct outcome o;
                        run_once(si, threads, &o);
                        if(o.rc != OK){
                                emit("F plain sem:run-failed kalign_run failed (input %d, %d threads)", K, threads);
                        }else if(ref && o.hash != ref){
                                emit("F plain sem:bytes-differ input %d with %d threads differs from the OpenMP-free build: %.300s", K, threads, o.text);
                        }
                        free(o.text);
                }
                emit("S plain_runs %d", reps);
                return 0;
        }
#ifdef USE_VGOMP
        {
                const struct sinput* si = sinput_get(K);
                int threads = arg_int(argc, argv, "--threads", 2);
                int nested = arg_int(argc, argv, "--nested", 0);
                uint64_t ref = strtoull(arg_str(argc, argv, "--ref", "0"), NULL, 10);
                struct xuser* u = calloc(1, sizeof *u);
                struct ex_state ex;
                int shard = arg_int(argc, argv, "--shard", 0);
                int nshards = arg_int(argc, argv, "--nshards", 1);
                yield_mask = arg_int(argc, argv, "--yields", Y_MERGE);
                lazy_idle = arg_int(argc, argv, "--lazy", 1);
                u->si = si;
                u->threads = threads;
                u->nested = nested;
                u->ref = ref;
                memset(&ex, 0, sizeof ex);
                ex.cost_mode = arg_int(argc, argv, "--cost", 0);
                ex.policy = arg_int(argc, argv, "--policy", 0);
                ex.bound = arg_int(argc, argv, "--bound", 1);
                ex.shard = shard;
                ex.nshards = nshards;
                ex.max_exec = arg_int(argc, argv, "--maxexec", 0);
                {
                        int dl = arg_int(argc, argv, "--deadline", 0);
                        ex.deadline = dl ? ex_now() + dl : 0;
                }
                ex.run = xrun;
                ex.user = u;
                g_ex = &ex;
                {
                        cpu_set_t cs;
                        CPU_ZERO(&cs);
                        CPU_SET(arg_int(argc, argv, "--cpu", shard) % 16, &cs);
                        sched_setaffinity(0, sizeof cs, &cs);
                }
                if(!strcmp(mode, "info") || !strcmp(mode, "replay")){
                        static uint16_t pre[20000];
                        int np = 0;
                        const char* cs = arg_str(argc, argv, "--choices", "");
                        struct outcome o;
                        struct vg_config cfg = { ex_choose, fatal_cb, &ex, nested, 5000000, lazy_idle };
                        while(*cs && np < 20000){
                                pre[np++] = (uint16_t)atoi(cs);
                                cs = strchr(cs, ',');
                                if(!cs){
                                        break;
                                }
                                cs++;
                        }
                        ex.prefix = pre;
                        ex.plen = np;
                        vg_begin(&cfg);
                        run_once(si, threads, &o);
                        emit("I input=%d name=%s threads=%d nested=%d points=%d steps=%ld strands=%d maxlive=%d", K, si->name, threads,
                             nested, ex.npts, vg_steps(), vg_num_strands(), vg_max_live());
                        vg_end();
                        print_tree(si->n);
                        emit("I outcome rc=%d hash=%llu order=%llu merge_overlap=%d kernel_overlap=%d divergence=%d text=%.200s", o.rc,
                             (unsigned long long)o.hash, (unsigned long long)o.order_hash, o.merge_overlap, o.kernel_overlap,
                             ex.divergence, o.text ? o.text : "");
                        if(ex.divergence){
                                emit("F sched sem:divergence the recorded choice list does not fit the enabled sets of this run");
                        }
                        if(o.rc != OK){
                                emit("F sched sem:run-failed kalign_run failed");
                        }else{
                                if(ref && o.hash != ref){
                                        emit("F sched sem:bytes-differ alignment differs from the OpenMP-free build: %.300s", o.text);
                                }
                                if(o.monitor_msg){
                                        emit("F sched sem:ordering %s", o.monitor_msg);
                                }
                                if(o.c10_msg){
                                        emit("F sched sem:c10-projection %s", o.c10_msg);
                                }
                        }
                        return 0;
                }
                if(!strcmp(mode, "canon")){
                        int N, rep, nfrom = arg_int(argc, argv, "--nfrom", 1), nto = arg_int(argc, argv, "--nto", 64);
                        long runs = 0;
                        for(N = nfrom; N <= nto; N++){
                                for(nested = 0; nested < 2; nested++){
                                        for(rep = 0; rep < (N <= 2 ? 2 : 1); rep++){
                                                struct outcome o;
                                                struct vg_config cfg = { ex_choose, fatal_cb, &ex, nested, 50000000, lazy_idle };
                                                ex.plen = 0;
                                                ex.npts = 0;
                                                ex.policy = (N + rep) % EX_NPOLICY;
                                                vg_begin(&cfg);
                                                run_once(si, N, &o);
                                                vg_end();
                                                runs++;
                                                if(o.rc != OK || o.hash != ref || o.monitor_msg || o.c10_msg){
                                                        emit("F canon sem:%s N=%d nested=%d policy=%d: %s %.200s :: input=%d",
                                                             o.rc != OK ? "run-failed" : (o.hash != ref ? "bytes-differ" : (o.monitor_msg ? "ordering" : "c10-projection")),
                                                             N, nested, ex.policy, o.monitor_msg ? o.monitor_msg : (o.c10_msg ? o.c10_msg : ""), o.text ? o.text : "", K);
                                                        free(o.text);
                                                        emit("S canon_runs %ld", runs);
                                                        return 0;
                                                }
                                                free(o.text);
                                        }
                                }
                        }
                        emit("S canon_runs %ld", runs);
                        emit("S regroup_nodes %ld", ST.regroup_nodes);
                        return 0;
                }
                /* explore, under a supervisor */
                SH = mmap(NULL, sizeof *SH, PROT_READ | PROT_WRITE, MAP_SHARED | MAP_ANONYMOUS, -1, 0);
                memset((void*)SH, 0, sizeof *SH);
                {
                        char tmpl[] = "/dev/shm/c02-stderr-XXXXXX";
                        int errfd = mkstemp(tmpl);
                        pid_t pid;
                        int st;
                        unlink(tmpl);
                        pid = fork();
                        if(pid == 0){
                                int b;
                                dup2(errfd, 2);
                                for(b = arg_int(argc, argv, "--onlybound", 0) ? ex.bound : 0; b <= ex.bound; b++){
                                        struct ex_state e2 = ex;
                                        double t0 = ex_now();
                                        e2.bound = b;
                                        memset(u->seen_orders, 0, sizeof u->seen_orders);
                                        u->distinct_orders = 0;
                                        memset(&ST, 0, sizeof ST);
                                        ex_explore(&e2);
                                        if(e2.stop){
                                                static char cs[120000];
                                                size_t o = 0;
                                                int i;
                                                for(i = 0; i < e2.fail_n && o + 8 < sizeof cs; i++){
                                                        o += (size_t)snprintf(cs + o, sizeof cs - o, "%s%d", i ? "," : "", e2.fail_choices[i]);
                                                }
                                                emit("F sched %s %s :: choices=%s", e2.divergence ? "sem:divergence" : u->failsig,
                                                     e2.divergence ? "replay divergence (enabled set differs when a prefix is replayed)" : u->failmsg, cs);
                                                _exit(0);
                                        }
                                        emit("B bound=%d complete=%d executions=%ld points=%ld maxpoints=%d pruned=%ld orders=%ld merge_overlap=%ld kernel_overlap=%ld regroup=%ld secs=%.2f",
                                             b, e2.complete, e2.executions, e2.points_total, e2.max_points, e2.pruned_by_bound, u->distinct_orders,
                                             ST.merge_overlap_execs, ST.kernel_overlap_execs, ST.regroup_nodes, ex_now() - t0);
                                        if(!e2.complete){
                                                break;
                                        }
                                }
                                _exit(0);
                        }
                        while(waitpid(pid, &st, 0) < 0 && errno == EINTR){
                        }
                        if(!(WIFEXITED(st) && (WEXITSTATUS(st) == 0 || WEXITSTATUS(st) == 3))){
                                static char cs[120000];
                                char rep[8192];
                                size_t o = 0;
                                int i;
                                ssize_t n;
                                for(i = 0; i < SH->n && o + 8 < sizeof cs; i++){
                                        o += (size_t)snprintf(cs + o, sizeof cs - o, "%s%d", i ? "," : "", SH->c[i]);
                                }
                                emit("C sched %s choices=%s", WIFSIGNALED(st) ? "signal" : "exit", cs);
                                lseek(errfd, 0, SEEK_SET);
                                n = read(errfd, rep, sizeof rep - 1);
                                if(n > 0){
                                        char* line;
                                        char* save;
                                        int lines = 0;
                                        rep[n] = 0;
                                        for(line = strtok_r(rep, "\n", &save); line && lines < 40; line = strtok_r(NULL, "\n", &save)){
                                                emit("| %s", line);
                                                lines++;
                                        }
                                }
                                emit(".");
                        }
                }
        }
#else
        (void)K;
        emit("E this mode needs the vgomp build");
#endif
        return 0;
}
