/* The alignment family shared by C06 (round trip) and C15 (well-formed output):
   (i)  alignments produced by kalign_run on inputs built to hit widths around the 60-column block size,
        with names of 1..200 characters over [A-Za-z0-9_.|-] and residues in both cases, nucleotide and protein;
   (ii) every alignment of <= 3 rows x <= 4 columns without all-gap column, read from an aligned FASTA file.
   An index selects one member; af_build() returns it as a finalised msa plus the expected rows/names. */
#ifndef ALNFAM_H
#define ALNFAM_H
#include "kx.h"
#include "shapes.h"

static const int AF_WIDTHS[] = {1, 2, 3, 59, 60, 61, 119, 120, 121, 180, 181, 240};
#define AF_NW 12
static const int AF_NAMELEN[] = {1, 2, 10, 59, 60, 61, 199, 200};
#define AF_NN 8
#define AF_NSPECIAL 13          /* no special char, or one of _ . | - at first / middle / last position */
#define AF_NROWS 3              /* 2, 3, 7 rows */
static const int AF_ROWS[] = {2, 3, 7};

static uint64_t af_count_run(void) { return (uint64_t)AF_NW * AF_NN * AF_NSPECIAL * AF_NROWS * 2; }

/* small read alignments: rows r in 2..3, columns c in 1..4, letters by position, every gap mask without all-gap column,
   at least one gap (otherwise the file is not recognised as an alignment) */
static uint64_t af_count_small(void)
{
        uint64_t t = 0;
        int r, c;
        for(r = 2; r <= 3; r++){
                for(c = 1; c <= 4; c++){
                        t += 1ULL << (r * c);
                }
        }
        return t;
}

/* long members: rows longer than the 512-byte growth step of the sequence buffers, read from aligned FASTA, with gap
   runs directly before residue index 512 / 1024 of a row and rows of exactly 512 / 1024 residues followed by gaps */
#define AF_NLONG 8
/* prefix-name members: the first row's name is a prefix of later rows' names (sp|Q9 / sp|Q9.1 / sp|Q91_b), and 12 rows named SEQ1..SEQ12 */
#define AF_NPREFIX 8
/* keyword-name members: one row carries a name (over the same character set) that looks like a piece of a format
   header; its first residue is W (protein) so that "NAME W..." appears at the start of a body line */
static const char* AF_KEY[] = {"CLUSTAL", "CLUSTALW", "CLUSTAL_O", "CLUSTAL.1", "MSF", "MSF.1", "Name", "Len", "Check", "Weight", "Type",
                               "PileUp", "multiple", "alignment", "NA_MULTIPLE_ALIGNMENT", "AA_MULTIPLE_ALIGNMENT", "x..", "a|b|", "k-", "_"};
#define AF_NKEYNAMES 20
#define AF_NKEY (AF_NKEYNAMES * 3 * 2)
/* many-row members: more than 50 rows, gaps only in the last rows (51 / 52 / 64 / 101 / 130 rows; 1 or 2 gapped rows; nucleotide / protein) */
static const int AF_MANYROWS[] = {50, 51, 52, 64, 101, 130};
#define AF_NMANY (6 * 2 * 2)
/* long-name members: names of 255 / 256 / 300 characters, read from an aligned FASTA file (the FASTA reader and writer keep
   names of any length; Clustal, MSF and the array entry point cap them at 255, so these members are judged in FASTA only) */
#define AF_NLONGNAME 6
static uint64_t af_count(int tier)
{
        (void)tier;
        return af_count_run() + af_count_small() + AF_NLONG + AF_NPREFIX + AF_NKEY + AF_NMANY + AF_NLONGNAME;
}

struct af_member {
        struct msa* m;          /* finalised */
        int n;
        char** rows;            /* expected gapped rows, in order */
        char** names;
        int protein;
        int width;
        int from_file;
        int valid;              /* 0: index denotes no alignment (e.g. all-gap column / no gap) */
        int maxname;            /* longest name, set for the long-name members only */
};

static void af_name(int len, int special, int row, char* out)
{
        static const char body[] = "abcdefghijklmnopqrstuvwxyzABCDEFGHIJKLMNOPQRSTUVWXYZ0123456789";
        static const char sp[] = "_.|-";
        int i;
        for(i = 0; i < len; i++){
                out[i] = body[(i * 7 + row * 13 + len) % 62];
        }
        /* make names distinct per row: the row digit somewhere safe */
        out[len / 2] = (char)('0' + row % 10);
        if(len >= 3){
                out[len / 3] = (char)('A' + row % 26);
        }
        if(special > 0){
                int which = (special - 1) / 3, where = (special - 1) % 3;
                int pos = where == 0 ? 0 : (where == 1 ? len / 2 : len - 1);
                if(len == 1){
                        /* a one-character name that is only a special character would collide across rows; skip by keeping the digit */
                }else{
                        if(pos == len / 2){
                                pos = (len / 2 + 1) % len;
                        }
                        out[pos] = sp[which];
                }
        }
        out[len] = 0;
}

static void af_free(struct af_member* a)
{
        if(a->m){
                kalign_free_msa(a->m);
        }
        kx_free_rows(a->rows, a->n);
        kx_free_rows(a->names, a->n);
        memset(a, 0, sizeof *a);
}

static int af_build(uint64_t idx, long seed, const char* tmpdir, struct af_member* a)
{
        memset(a, 0, sizeof *a);
        if(idx < af_count_run()){
                int protein = (int)(idx % 2);
                int rows, sp, nl, w, i;
                uint64_t st = 4242 + (uint64_t)seed + idx * 17;
                struct kx_set in;
                static char base[512], tmp[512];
                const char* alpha = protein ? "LKWAVDEGST" : "ACGT";
                idx /= 2;
                rows = AF_ROWS[idx % AF_NROWS];
                idx /= AF_NROWS;
                sp = (int)(idx % AF_NSPECIAL);
                idx /= AF_NSPECIAL;
                nl = AF_NAMELEN[idx % AF_NN];
                idx /= AF_NN;
                w = AF_WIDTHS[idx];
                kx_set_init(&in);
                sh_random_seq(&st, alpha, w, base);
                for(i = 0; i < rows; i++){
                        char nm[260];
                        int j, o = 0;
                        /* row 0: the base; other rows: the base with i residues removed at spread positions (so the
                           alignment width stays w when the aligner re-inserts them as gaps), some letters lower case */
                        for(j = 0; j < w; j++){
                                int drop = (i > 0 && w > 3 * rows && (j == (w * i) / (rows + 1) || (i > 2 && j == w - 2 - i)));
                                if(!drop){
                                        tmp[o++] = ((j + i) % 5 == 0) ? (char)tolower(base[j]) : base[j];
                                }
                        }
                        tmp[o] = 0;
                        af_name(nl, sp, i, nm);
                        kx_set_add(&in, tmp, nm);
                }
                a->m = kx_make_msa(&in);
                a->protein = protein;
                a->valid = 0;
                if(a->m){
                        /* short sequences drawn from the protein letters may consist of A/G/T/S... only: the kind is what the reader decided (C13 judges that decision) */
                        a->protein = (a->m->biotype == ALN_BIOTYPE_PROTEIN);
                }
                if(a->m && kalign_run(a->m, 1, KALIGN_TYPE_UNDEFINED, -1, -1, -1) == OK){
                        a->n = a->m->numseq;
                        kx_msa_rows(a->m, &a->rows, &a->names);
                        a->width = a->m->alnlen;
                        a->valid = 1;
                }
                kx_set_free(&in);
                return a->valid;
        }else if(idx >= af_count_run() + af_count_small() + AF_NLONG + AF_NPREFIX + AF_NKEY + AF_NMANY){
                static const int NL[3] = {255, 256, 300};
                int k = (int)(idx - af_count_run() - af_count_small() - AF_NLONG - AF_NPREFIX - AF_NKEY - AF_NMANY);
                int nl = NL[k % 3], protein = k / 3, w = 70, i, j;
                uint64_t st = 7700 + (uint64_t)k;
                static char base[128];
                char path[400];
                FILE* f;
                const char* alpha = protein ? "LKWAVDEGST" : "ACGT";
                sh_random_seq(&st, alpha, w, base);
                a->n = 3;
                a->rows = malloc(sizeof(char*) * 3);
                a->names = malloc(sizeof(char*) * 3);
                for(i = 0; i < 3; i++){
                        int l = i == 1 ? nl : 12;       /* the middle row carries the long name */
                        a->rows[i] = malloc((size_t)w + 1);
                        for(j = 0; j < w; j++){
                                a->rows[i][j] = (j % 23 == 5 + i) ? '-' : base[j];
                        }
                        a->rows[i][w] = 0;
                        a->names[i] = malloc((size_t)l + 1);
                        for(j = 0; j < l; j++){
                                a->names[i][j] = "abcdefghijklmnopqrstuvwxyz0123456789_"[(j * 7 + i) % 37];
                        }
                        a->names[i][l] = 0;
                }
                snprintf(path, sizeof path, "%s/af_longname.afa", tmpdir);
                f = fopen(path, "w");
                for(i = 0; i < 3; i++){
                        fprintf(f, ">%s\n%s\n", a->names[i], a->rows[i]);
                }
                fclose(f);
                a->width = w;
                a->from_file = 1;
                a->protein = protein;
                a->maxname = nl;
                if(kalign_read_input(path, &a->m, 1) != OK || !a->m){
                        a->m = NULL;
                        a->valid = 0;
                        return -1;
                }
                a->valid = 1;
                return 1;
        }else if(idx >= af_count_run() + af_count_small() + AF_NLONG + AF_NPREFIX + AF_NKEY){
                int k = (int)(idx - af_count_run() - af_count_small() - AF_NLONG - AF_NPREFIX - AF_NKEY);
                int rows = AF_MANYROWS[k % 6], ngapped = 1 + (k / 6) % 2, protein = k / 12, w = 24, i, j;
                uint64_t st = 9100 + (uint64_t)k;
                static char base[64];
                char path[400];
                FILE* f;
                const char* alpha = protein ? "LKWAVDEGST" : "ACGT";
                sh_random_seq(&st, alpha, w, base);
                a->n = rows;
                a->rows = malloc(sizeof(char*) * (size_t)rows);
                a->names = malloc(sizeof(char*) * (size_t)rows);
                for(i = 0; i < rows; i++){
                        char nm[16];
                        a->rows[i] = malloc((size_t)w + 1);
                        for(j = 0; j < w; j++){
                                a->rows[i][j] = (j == 3 + i % 17) ? alpha[(i / 17) % (int)strlen(alpha)] : base[j];
                        }
                        if(i >= rows - ngapped){
                                a->rows[i][5 + (rows - i)] = '-';
                                a->rows[i][w - 1] = '-';
                        }
                        a->rows[i][w] = 0;
                        snprintf(nm, sizeof nm, "m%d", i);
                        a->names[i] = strdup(nm);
                }
                snprintf(path, sizeof path, "%s/af_many.afa", tmpdir);
                f = fopen(path, "w");
                for(i = 0; i < rows; i++){
                        fprintf(f, ">%s\n%s\n", a->names[i], a->rows[i]);
                }
                fclose(f);
                a->width = w;
                a->from_file = 1;
                a->protein = protein;
                if(kalign_read_input(path, &a->m, 1) != OK || !a->m){
                        a->m = NULL;
                        a->valid = 0;
                        return -1;
                }
                a->valid = 1;
                return 1;
        }else if(idx >= af_count_run() + af_count_small() + AF_NLONG + AF_NPREFIX){
                int k = (int)(idx - af_count_run() - af_count_small() - AF_NLONG - AF_NPREFIX);
                int key = k % AF_NKEYNAMES, krow = (k / AF_NKEYNAMES) % 3, protein = k / (AF_NKEYNAMES * 3), w = 40, i;
                uint64_t st = 9900 + (uint64_t)k;
                struct kx_set in;
                static char base[64], tmp[64];
                const char* alpha = protein ? "LKWAVDEGST" : "ACGT";
                kx_set_init(&in);
                sh_random_seq(&st, alpha, w, base);
                for(i = 0; i < 3; i++){
                        char nm[40];
                        sh_derive(&st, alpha, base, w, w - i, tmp);
                        if(protein){
                                tmp[0] = 'W';
                        }
                        if(i == krow){
                                snprintf(nm, sizeof nm, "%s", AF_KEY[key]);
                        }else{
                                snprintf(nm, sizeof nm, "x%d", i);
                        }
                        kx_set_add(&in, tmp, nm);
                }
                a->m = kx_make_msa(&in);
                if(a->m && kalign_run(a->m, 1, KALIGN_TYPE_UNDEFINED, -1, -1, -1) == OK){
                        a->n = a->m->numseq;
                        kx_msa_rows(a->m, &a->rows, &a->names);
                        a->width = a->m->alnlen;
                        a->protein = (a->m->biotype == ALN_BIOTYPE_PROTEIN);
                        a->valid = 1;
                }
                kx_set_free(&in);
                return a->valid;
        }else if(idx >= af_count_run() + af_count_small() + AF_NLONG){
                int k = (int)(idx - af_count_run() - af_count_small() - AF_NLONG);
                int rows = (k & 1) ? 12 : 4, w = (k & 2) ? 130 : 61, protein = (k & 4) ? 1 : 0, i;
                uint64_t st = 8800 + (uint64_t)k;
                struct kx_set in;
                static char base[256], tmp[256];
                static const char* PNAMES[4] = {"sp|Q9", "sp|Q9.1", "sp|Q91_b", "sp|Q9-x|Q9"};
                const char* alpha = protein ? "LKWAVDEGST" : "ACGT";
                kx_set_init(&in);
                sh_random_seq(&st, alpha, w, base);
                for(i = 0; i < rows; i++){
                        char nm[32];
                        sh_derive(&st, alpha, base, w, w - (i % 3), tmp);
                        if(rows == 4){
                                snprintf(nm, sizeof nm, "%s", PNAMES[i]);
                        }else{
                                snprintf(nm, sizeof nm, "SEQ%d", i + 1);
                        }
                        kx_set_add(&in, tmp, nm);
                }
                a->m = kx_make_msa(&in);
                if(a->m && kalign_run(a->m, 1, KALIGN_TYPE_UNDEFINED, -1, -1, -1) == OK){
                        a->n = a->m->numseq;
                        kx_msa_rows(a->m, &a->rows, &a->names);
                        a->width = a->m->alnlen;
                        a->protein = (a->m->biotype == ALN_BIOTYPE_PROTEIN);
                        a->valid = 1;
                }
                kx_set_free(&in);
                return a->valid;
        }else if(idx >= af_count_run() + af_count_small()){
                int k = (int)(idx - af_count_run() - af_count_small());
                int w = (k & 1) ? 1100 : 600, i, j;
                int runlen = (k & 2) ? 1 : 8;
                int protein = (k & 4) ? 1 : 0;
                uint64_t st = 5150 + (uint64_t)k;
                static char base[1200];
                char path[400];
                FILE* f;
                const char* alpha = protein ? "LKWAVDEGST" : "ACGT";
                sh_random_seq(&st, alpha, w, base);
                a->n = 4;
                a->rows = malloc(sizeof(char*) * 4);
                a->names = malloc(sizeof(char*) * 4);
                for(i = 0; i < 4; i++){
                        char nm[16];
                        a->rows[i] = malloc((size_t)w + 1);
                        for(j = 0; j < w; j++){
                                char ch = base[j];
                                /* row 1: gap run directly before its residue index 512; row 2: the same at 1024 (w = 1100) or at 300;
                                   row 3: exactly 512 residues, then gaps to the end */
                                if(i == 1 && j >= 512 && j < 512 + runlen){
                                        ch = '-';
                                }
                                if(i == 2 && j >= ((w > 1100 - 1) ? 1024 : 300) && j < ((w > 1100 - 1) ? 1024 : 300) + runlen){
                                        ch = '-';
                                }
                                if(i == 3 && j >= 512){
                                        ch = '-';
                                }
                                a->rows[i][j] = ch;
                        }
                        a->rows[i][w] = 0;
                        snprintf(nm, sizeof nm, "long%d", i);
                        a->names[i] = strdup(nm);
                }
                snprintf(path, sizeof path, "%s/af_long.afa", tmpdir);
                f = fopen(path, "w");
                for(i = 0; i < 4; i++){
                        fprintf(f, ">%s\n", a->names[i]);
                        for(j = 0; j < w; j += 60){
                                fprintf(f, "%.60s\n", a->rows[i] + j);
                        }
                }
                fclose(f);
                a->width = w;
                a->from_file = 1;
                a->protein = protein;
                if(kalign_read_input(path, &a->m, 1) != OK || !a->m){
                        a->m = NULL;
                        return -1;
                }
                a->protein = (a->m->biotype == ALN_BIOTYPE_PROTEIN);
                a->valid = 1;
                return 1;
        }else{
                uint64_t k = idx - af_count_run();
                int r, c, i, j;
                char txt[512];
                size_t o = 0;
                char path[400];
                for(r = 2; r <= 3; r++){
                        for(c = 1; c <= 4; c++){
                                if(k < (1ULL << (r * c))){
                                        goto found;
                                }
                                k -= 1ULL << (r * c);
                        }
                }
                return 0;
found:
                /* bit (i*c+j) set: row i has a residue in column j.  Reject all-gap columns, empty rows, gap-free files. */
                {
                        int anygap = 0;
                        for(j = 0; j < c; j++){
                                int any = 0;
                                for(i = 0; i < r; i++){
                                        any |= (int)((k >> (i * c + j)) & 1);
                                }
                                if(!any){
                                        return 0;
                                }
                        }
                        for(i = 0; i < r; i++){
                                int any = 0;
                                for(j = 0; j < c; j++){
                                        any |= (int)((k >> (i * c + j)) & 1);
                                        if(!((k >> (i * c + j)) & 1)){
                                                anygap = 1;
                                        }
                                }
                                if(!any){
                                        return 0;
                                }
                        }
                        if(!anygap){
                                return 0;
                        }
                }
                a->n = r;
                a->rows = malloc(sizeof(char*) * (size_t)r);
                a->names = malloc(sizeof(char*) * (size_t)r);
                for(i = 0; i < r; i++){
                        char nm[16];
                        a->rows[i] = malloc((size_t)c + 1);
                        for(j = 0; j < c; j++){
                                a->rows[i][j] = ((k >> (i * c + j)) & 1) ? "ACGTacgt"[(i * 3 + j) % 8] : '-';
                        }
                        a->rows[i][c] = 0;
                        snprintf(nm, sizeof nm, "r%d_x", i);
                        a->names[i] = strdup(nm);
                        o += (size_t)snprintf(txt + o, sizeof txt - o, ">%s\n%s\n", nm, a->rows[i]);
                }
                snprintf(path, sizeof path, "%s/af_small.afa", tmpdir);
                {
                        FILE* f = fopen(path, "w");
                        fputs(txt, f);
                        fclose(f);
                }
                a->width = c;
                a->from_file = 1;
                if(kalign_read_input(path, &a->m, 1) != OK || !a->m){
                        a->valid = 0;
                        a->m = NULL;
                        return -1;      /* a legal aligned file that cannot be read */
                }
                a->valid = 1;
                return 1;
        }
}
#endif
