/* C04 - the result depends only on names and residues, not on how they are presented.
   case = (base set, presentation); oracle: FASTA bytes written == bytes for the bare one-file FASTA. */
#define KX_WITH_CLI
#include "vh.h"
#include "kx.h"
#include "shapes.h"

const char* vh_property = "C04";

/* ---------------- base sets ---------------- */
#define NB2 196         /* pairs over {A,C}, length 1..3 */
#define NB3 216         /* triples over {A,C}, length 1..2 */
#define NBX 5           /* larger sets: 12 x ~70 nucleotide, 12 x ~70 protein, 5 x 130, 3 x 61, 60 x ~25 */
#define NBM 4           /* protein sets in which single records consist of nucleotide letters only (the kind is a property of the whole input) */
static uint64_t nbase(int tier) { (void)tier; return NB2 + NB3 + NBX + NBM; }

static void base_build(uint64_t b, struct kx_set* s)
{
        char buf[8];
        kx_set_init(s);
        if(b < NB2){
                kx_nth_string(b % 14, "AC", 1, 3, buf);
                kx_set_add(s, buf, "one");
                kx_nth_string(b / 14, "AC", 1, 3, buf);
                kx_set_add(s, buf, "two");
        }else if(b < NB2 + NB3){
                uint64_t x = b - NB2;
                kx_nth_string(x % 6, "AC", 1, 2, buf);
                kx_set_add(s, buf, "one");
                kx_nth_string((x / 6) % 6, "AC", 1, 2, buf);
                kx_set_add(s, buf, "two");
                kx_nth_string(x / 36, "AC", 1, 2, buf);
                kx_set_add(s, buf, "three");
        }else if(b >= NB2 + NB3 + NBX){
                static const char* M[NBM][4] = {
                        {"GATTACAGAT", "GATLKWDELKWLL", "GATMKWDELKWLL", NULL},
                        {"GATLKWDELKWLL", "GATMKWDELKWLL", "GATTACAGAT", NULL},
                        {"GATTACA", "LKWDELKWGATTACA", "TACAGAT", "LKWDEIKWGATACA"},
                        {"LKWDELKW", "ACGT", "LKWDEKW", NULL}};
                int which = (int)(b - NB2 - NB3 - NBX), i;
                for(i = 0; i < 4 && M[which][i]; i++){
                        kx_set_addf(s, M[which][i], "mix%d", i);
                }
        }else{
                int which = (int)(b - NB2 - NB3), i;
                int n = which < 2 ? 12 : (which == 2 ? 5 : (which == 3 ? 3 : 60));
                int len = which < 2 ? 70 : (which == 2 ? 130 : (which == 3 ? 61 : 25));
                const char* alpha = which == 1 ? "LKWAVDEGST" : "ACGT";
                uint64_t st = 31337 + (uint64_t)which;
                static char base[256], tmp[256];
                sh_random_seq(&st, alpha, len, base);
                for(i = 0; i < n; i++){
                        sh_derive(&st, alpha, base, len, len - (i % 4), tmp);
                        kx_set_addf(s, tmp, "rec%02d", i);
                }
        }
}

/* ---------------- presentations ---------------- */
enum { P_WRAP = 0, P_BLANK = 7, P_PAD = 9, P_GAP1 = 12, P_GAP2 = 12 + 108, P_MOSTLY = 12 + 108 + 27, P_CLU = P_MOSTLY + 3, P_MSF = P_CLU + 6,
       P_SPLIT = P_MSF + 6, P_STDIN = P_SPLIT + 12, P_LATE = P_STDIN + 8, P_NONL = P_LATE + 6, P_CRLF = P_NONL + 3, P_TAB = P_CRLF + 3, P_END = P_TAB + 4 };
static const int WRAPS[7] = {1, 2, 3, 59, 60, 61, 0};
static const char GAPSYM[3] = {'-', '.', '~'};
static const int RUNLEN[3] = {1, 2, 100};

uint64_t vh_total(int tier) { return nbase(tier) * P_END; }

struct files { int n; char path[3][400]; int use_stdin; char stdin_path[400]; int dash_i; };

static void put(const char* path, const char* txt)
{
        vh_write_file(path, txt, strlen(txt));
}

/* the gapped rendering of sequence i under a gap presentation */
static void gapped(const struct kx_set* s, int i, int sym, int run1, int place1, int run2, int alternate, char* out)
{
        int len = s->len[i], o = 0, j, k;
        int p1 = place1 == 0 ? 0 : (place1 == 1 ? len / 2 : len);
        int p2 = len;   /* second run (if any) at the other end */
        if(alternate && (i & 1)){
                p1 = len - p1;
        }
        if(run2 && p1 == len){
                p2 = 0;
        }
        for(j = 0; j <= len; j++){
                if(j == p1){
                        for(k = 0; k < run1; k++){
                                out[o++] = GAPSYM[sym];
                        }
                }
                if(run2 && j == p2){
                        for(k = 0; k < run2; k++){
                                out[o++] = GAPSYM[(sym + 1) % 3];
                        }
                }
                if(j < len){
                        out[o++] = s->seq[i][j];
                }
        }
        out[o] = 0;
}

static void equalise(char rows[][4096], int n, char sym)
{
        int i, m = 0;
        for(i = 0; i < n; i++){
                int l = (int)strlen(rows[i]);
                if(l > m){
                        m = l;
                }
        }
        for(i = 0; i < n; i++){
                int l = (int)strlen(rows[i]);
                while(l < m){
                        rows[i][l++] = sym;
                }
                rows[i][l] = 0;
        }
}

static char ROWS[64][4096];
static char TXT[1 << 17];

static void write_fasta_rows(const struct kx_set* s, int from, int to, int wrap, const char* path)
{
        size_t o = 0;
        int i, j;
        for(i = from; i < to; i++){
                o += (size_t)sprintf(TXT + o, ">%s\n", s->name[i]);
                if(wrap <= 0){
                        o += (size_t)sprintf(TXT + o, "%s\n", ROWS[i]);
                }else{
                        int l = (int)strlen(ROWS[i]);
                        for(j = 0; j < l; j += wrap){
                                o += (size_t)sprintf(TXT + o, "%.*s\n", wrap, ROWS[i] + j);
                        }
                }
        }
        TXT[o] = 0;
        put(path, TXT);
}

/* independent Clustal / MSF writers (blocks of 60) */
static void write_blocks(const struct kx_set* s, int from, int to, int msf, int pad, const char* path)
{
        size_t o = 0;
        int i, b, len = (int)strlen(ROWS[from]);
        int namew = 0;
        for(i = from; i < to; i++){
                if((int)strlen(s->name[i]) > namew){
                        namew = (int)strlen(s->name[i]);
                }
        }
        namew += pad;
        if(msf){
                o += (size_t)sprintf(TXT + o, "!!NA_MULTIPLE_ALIGNMENT 1.0\n\n  presented.msf  MSF: %d  Type: N  January 01, 2000 12:00  Check: 1234 ..\n\n", len);
                for(i = from; i < to; i++){
                        o += (size_t)sprintf(TXT + o, " Name: %-*s Len: %5d  Check: %4d  Weight:  1.00\n", namew, s->name[i], len, 1000 + i);
                }
                o += (size_t)sprintf(TXT + o, "\n//\n\n");
        }else{
                o += (size_t)sprintf(TXT + o, "CLUSTAL W (1.83) multiple sequence alignment\n\n\n");
        }
        for(b = 0; b < len || b == 0; b += 60){
                for(i = from; i < to; i++){
                        o += (size_t)sprintf(TXT + o, "%-*s%.60s\n", namew, s->name[i], ROWS[i] + b);
                }
                o += (size_t)sprintf(TXT + o, "\n");
        }
        TXT[o] = 0;
        put(path, TXT);
}

static const char* present_name(int p)
{
        static char b[128];
        if(p < P_BLANK){
                snprintf(b, sizeof b, "FASTA wrapped at %d", WRAPS[p]);
        }else if(p < P_PAD){
                snprintf(b, sizeof b, "blank line %s every line", p == P_BLANK ? "before" : "after");
        }else if(p < P_GAP1){
                snprintf(b, sizeof b, "%s padding of sequence lines", p == P_PAD ? "trailing space" : (p == P_PAD + 1 ? "trailing tab" : "leading space"));
        }else if(p < P_GAP2){
                int q = p - P_GAP1;
                snprintf(b, sizeof b, "one gap run: symbol '%c' length %d at %s, %s, %s", GAPSYM[q % 3], RUNLEN[(q / 3) % 3],
                         (const char*[]){"start", "middle", "end"}[(q / 9) % 3], (q / 27) % 2 ? "alternating ends" : "same place", (q / 54) ? "equal row lengths (aligned FASTA)" : "ragged");
        }else if(p < P_MOSTLY){
                int q = p - P_GAP2;
                snprintf(b, sizeof b, "two gap runs: symbol '%c' lengths %d and %d, aligned FASTA", GAPSYM[q % 3], RUNLEN[(q / 3) % 3], RUNLEN[(q / 9) % 3]);
        }else if(p < P_CLU){
                snprintf(b, sizeof b, "aligned FASTA that is >= 95%% gap characters ('%c')", GAPSYM[p - P_MOSTLY]);
        }else if(p < P_MSF){
                int q = p - P_CLU;
                snprintf(b, sizeof b, "Clustal file, name padding %d, %s", (const int[]){1, 5, 200}[q % 3], q / 3 ? "internal gaps" : "end-padded");
        }else if(p < P_SPLIT){
                int q = p - P_MSF;
                snprintf(b, sizeof b, "MSF file, name padding %d, %s", (const int[]){1, 5, 200}[q % 3], q / 3 ? "internal gaps" : "end-padded");
        }else if(p < P_STDIN){
                snprintf(b, sizeof b, "records split over several files (variant %d)", p - P_SPLIT);
        }else if(p < P_LATE){
                snprintf(b, sizeof b, "command line with standard input (variant %d%s)", (p - P_STDIN) % 4, (p - P_STDIN) >= 4 ? ", first file as -i" : "");
        }else if(p < P_NONL){
                int q = p - P_LATE;
                snprintf(b, sizeof b, "gap characters ('%c') only in the last %d record(s), ragged FASTA", GAPSYM[q % 3], q / 3 ? 8 : 1);
        }else if(p < P_CRLF){
                snprintf(b, sizeof b, "%s file whose last line has no terminating newline", (const char*[]){"FASTA", "Clustal", "MSF"}[p - P_NONL]);
        }else if(p < P_TAB){
                snprintf(b, sizeof b, "%s file with CR LF line ends", (const char*[]){"FASTA", "Clustal", "MSF"}[p - P_CRLF]);
        }else{
                snprintf(b, sizeof b, "tab padding: %s", (const char*[]){"FASTA sequence lines indented by a tab", "a tab in the middle of FASTA sequence lines",
                         "Clustal with a tab between name and residues", "MSF with a tab between name and residues"}[p - P_TAB]);
        }
        return b;
}

/* returns 0 if the presentation does not apply to this base set */
static int present(const struct kx_set* s, int p, struct files* f)
{
        int i, n = s->n;
        f->n = 1;
        f->use_stdin = 0;
        f->dash_i = 0;
        snprintf(f->path[0], sizeof f->path[0], "%s/p0.in", vh_tmpdir);
        snprintf(f->path[1], sizeof f->path[1], "%s/p1.in", vh_tmpdir);
        snprintf(f->path[2], sizeof f->path[2], "%s/p2.in", vh_tmpdir);
        snprintf(f->stdin_path, sizeof f->stdin_path, "%s/pstdin.in", vh_tmpdir);
        for(i = 0; i < n; i++){
                strcpy(ROWS[i], s->seq[i]);
        }
        if(p < P_BLANK){
                write_fasta_rows(s, 0, n, WRAPS[p], f->path[0]);
        }else if(p < P_PAD){
                size_t o = 0;
                for(i = 0; i < n; i++){
                        if(p == P_BLANK){
                                o += (size_t)sprintf(TXT + o, "\n>%s\n\n%s\n", s->name[i], s->seq[i]);
                        }else{
                                o += (size_t)sprintf(TXT + o, ">%s\n\n%s\n\n", s->name[i], s->seq[i]);
                        }
                }
                put(f->path[0], TXT);
        }else if(p < P_GAP1){
                size_t o = 0;
                for(i = 0; i < n; i++){
                        if(p == P_PAD){
                                o += (size_t)sprintf(TXT + o, ">%s\n%s   \n", s->name[i], s->seq[i]);
                        }else if(p == P_PAD + 1){
                                o += (size_t)sprintf(TXT + o, ">%s\n%s\t\t\n", s->name[i], s->seq[i]);
                        }else{
                                o += (size_t)sprintf(TXT + o, ">%s\n  %s\n", s->name[i], s->seq[i]);
                        }
                }
                put(f->path[0], TXT);
        }else if(p < P_GAP2){
                int q = p - P_GAP1;
                for(i = 0; i < n; i++){
                        gapped(s, i, q % 3, RUNLEN[(q / 3) % 3], (q / 9) % 3, 0, (q / 27) % 2, ROWS[i]);
                }
                if(q / 54){
                        equalise(ROWS, n, GAPSYM[q % 3]);
                }
                write_fasta_rows(s, 0, n, (q % 2) ? 60 : 0, f->path[0]);
        }else if(p < P_MOSTLY){
                int q = p - P_GAP2;
                for(i = 0; i < n; i++){
                        gapped(s, i, q % 3, RUNLEN[(q / 3) % 3], 1, RUNLEN[(q / 9) % 3], 1, ROWS[i]);
                }
                equalise(ROWS, n, GAPSYM[q % 3]);
                write_fasta_rows(s, 0, n, 60, f->path[0]);
        }else if(p < P_CLU){
                /* >= 95 % gaps: 20 gap characters around every residue */
                for(i = 0; i < n; i++){
                        int o = 0, j, k;
                        if(s->len[i] * 21 + 32 > 4000){
                                return 0;
                        }
                        for(j = 0; j < s->len[i]; j++){
                                for(k = 0; k < 20; k++){
                                        ROWS[i][o++] = GAPSYM[p - P_MOSTLY];
                                }
                                ROWS[i][o++] = s->seq[i][j];
                        }
                        for(k = 0; k < 20; k++){
                                ROWS[i][o++] = GAPSYM[p - P_MOSTLY];
                        }
                        ROWS[i][o] = 0;
                }
                equalise(ROWS, n, GAPSYM[p - P_MOSTLY]);
                write_fasta_rows(s, 0, n, 60, f->path[0]);
        }else if(p < P_SPLIT){
                int msf = p >= P_MSF;
                int q = msf ? p - P_MSF : p - P_CLU;
                static const int PADS[3] = {1, 5, 200};
                if(q / 3){
                        for(i = 0; i < n; i++){
                                gapped(s, i, msf ? 1 : 0, 2, 1, 1, 1, ROWS[i]);
                        }
                }
                equalise(ROWS, n, msf ? '.' : '-');
                write_blocks(s, 0, n, msf, PADS[q % 3], f->path[0]);
        }else if(p < P_STDIN){
                /* splits into contiguous parts; formats of the parts vary with the variant */
                int q = p - P_SPLIT;
                int cut1, cut2 = n;
                int fmt[3];
                if(n < 3 && q >= 4){
                        return 0;
                }
                if(q < 4){
                        cut1 = (q & 1) ? n - 1 : 1;             /* two files */
                        if(n == 2){
                                cut1 = 1;
                        }
                        f->n = 2;
                        fmt[0] = q / 2;
                        fmt[1] = 0;
                }else{
                        cut1 = 1;
                        cut2 = (q & 1) ? n - 1 : 2;             /* three files */
                        if(cut2 <= cut1){
                                cut2 = cut1 + 1;
                        }
                        f->n = 3;
                        fmt[0] = (q / 2) % 3;
                        fmt[1] = (q / 4) % 3;
                        fmt[2] = 0;
                }
                {
                        int starts[4] = {0, cut1, cut2, n};
                        int part;
                        if(f->n == 2){
                                starts[2] = n;
                        }
                        for(part = 0; part < f->n; part++){
                                int a = starts[part], b = starts[part + 1];
                                if(fmt[part] == 0){
                                        write_fasta_rows(s, a, b, 60, f->path[part]);
                                }else{
                                        /* block formats need equal row lengths within the file */
                                        static char save[64][4096];
                                        int k;
                                        for(k = a; k < b; k++){
                                                strcpy(save[k], ROWS[k]);
                                        }
                                        {
                                                int m = 0;
                                                for(k = a; k < b; k++){
                                                        if((int)strlen(ROWS[k]) > m){
                                                                m = (int)strlen(ROWS[k]);
                                                        }
                                                }
                                                for(k = a; k < b; k++){
                                                        int l = (int)strlen(ROWS[k]);
                                                        while(l < m){
                                                                ROWS[k][l++] = '-';
                                                        }
                                                        ROWS[k][l] = 0;
                                                }
                                        }
                                        write_blocks(s, a, b, fmt[part] == 2, 3, f->path[part]);
                                        for(k = a; k < b; k++){
                                                strcpy(ROWS[k], save[k]);
                                        }
                                }
                        }
                }
        }else if(p >= P_LATE && p < P_NONL){
                int q = p - P_LATE, k = q / 3 ? 8 : 1;
                if(n < 2){
                        return 0;
                }
                for(i = 0; i < n; i++){
                        if(i >= n - k && i > 0){
                                gapped(s, i, q % 3, 2, 1, 1, 0, ROWS[i]);
                        }
                }
                write_fasta_rows(s, 0, n, 60, f->path[0]);
        }else if(p >= P_TAB){
                int q = p - P_TAB;
                size_t o = 0;
                int b;
                if(q == 0 || q == 1){
                        for(i = 0; i < n; i++){
                                int half = s->len[i] / 2;
                                if(q == 0){
                                        o += (size_t)sprintf(TXT + o, ">%s\n\t%s\n", s->name[i], s->seq[i]);
                                }else{
                                        o += (size_t)sprintf(TXT + o, ">%s\n%.*s\t%s\n", s->name[i], half, s->seq[i], s->seq[i] + half);
                                }
                        }
                }else{
                        int len;
                        equalise(ROWS, n, q == 3 ? '.' : '-');
                        len = (int)strlen(ROWS[0]);
                        if(q == 3){
                                o += (size_t)sprintf(TXT + o, "!!NA_MULTIPLE_ALIGNMENT 1.0\n\n  t.msf  MSF: %d  Type: N  Check: 1 ..\n\n", len);
                                for(i = 0; i < n; i++){
                                        o += (size_t)sprintf(TXT + o, " Name: %s Len: %d  Check: 1  Weight:  1.00\n", s->name[i], len);
                                }
                                o += (size_t)sprintf(TXT + o, "\n//\n\n");
                        }else{
                                o += (size_t)sprintf(TXT + o, "CLUSTAL W (1.83) multiple sequence alignment\n\n");
                        }
                        for(b = 0; b < len || b == 0; b += 60){
                                for(i = 0; i < n; i++){
                                        o += (size_t)sprintf(TXT + o, "%s\t%.60s\n", s->name[i], ROWS[i] + b);
                                }
                                o += (size_t)sprintf(TXT + o, "\n");
                        }
                }
                TXT[o] = 0;
                put(f->path[0], TXT);
        }else if(p >= P_CRLF){
                int q = p - P_CRLF;
                static char crlf[1 << 18];
                size_t l, o2 = 0, z;
                if(q == 0){
                        write_fasta_rows(s, 0, n, 60, f->path[0]);
                }else{
                        equalise(ROWS, n, q == 2 ? '.' : '-');
                        write_blocks(s, 0, n, q == 2, 3, f->path[0]);
                }
                l = strlen(TXT);
                for(z = 0; z < l && o2 + 2 < sizeof crlf; z++){
                        if(TXT[z] == '\n'){
                                crlf[o2++] = '\r';
                        }
                        crlf[o2++] = TXT[z];
                }
                vh_write_file(f->path[0], crlf, o2);
        }else if(p >= P_NONL){
                int q = p - P_NONL;
                size_t l;
                if(q == 0){
                        write_fasta_rows(s, 0, n, 60, f->path[0]);
                }else{
                        equalise(ROWS, n, q == 2 ? '.' : '-');
                        write_blocks(s, 0, n, q == 2, 3, f->path[0]);
                }
                /* TXT still holds the text: drop the final newline(s) */
                l = strlen(TXT);
                while(l > 0 && TXT[l - 1] == '\n'){
                        l--;
                }
                vh_write_file(f->path[0], TXT, l);
        }else{
                /* command line: 0: everything on stdin; 1: first record(s) on stdin, rest in a file; 2: one file, empty stdin; 3: stdin + two files;
                   4..7: the same with the first file given as "-i <file>" and the others as positional arguments */
                int q = (p - P_STDIN) % 4;
                f->use_stdin = 1;
                f->dash_i = (p - P_STDIN) / 4;
                if(f->dash_i && q == 0){
                        return 0;       /* no file to name */
                }
                if(q == 0){
                        write_fasta_rows(s, 0, n, 60, f->stdin_path);
                        f->n = 0;
                }else if(q == 1){
                        write_fasta_rows(s, 0, 1, 60, f->stdin_path);
                        write_fasta_rows(s, 1, n, 60, f->path[0]);
                        f->n = 1;
                }else if(q == 2){
                        put(f->stdin_path, "");
                        write_fasta_rows(s, 0, n, 60, f->path[0]);
                        f->n = 1;
                }else{
                        if(n < 3){
                                return 0;
                        }
                        write_fasta_rows(s, 0, 1, 60, f->stdin_path);
                        write_fasta_rows(s, 1, 2, 60, f->path[0]);
                        write_fasta_rows(s, 2, n, 60, f->path[1]);
                        f->n = 2;
                }
        }
        return 1;
}

void vh_describe(uint64_t id, int tier, char* buf, size_t n)
{
        struct kx_set s;
        int p = (int)(id % P_END), i;
        size_t o;
        (void)tier;
        base_build(id / P_END, &s);
        o = (size_t)snprintf(buf, n, "presentation: %s; %d records:", present_name(p), s.n);
        for(i = 0; i < s.n && i < 3; i++){
                o += (size_t)snprintf(buf + o, n - o, " %s=\"%.30s\"", s.name[i], s.seq[i]);
        }
        kx_set_free(&s);
}

static char* run_files(struct files* f, size_t* outlen, int* rc)
{
        struct msa* m = NULL;
        const char* out = vh_tmp("c04.out");
        int i;
        char* data = NULL;
        *rc = OK;
        for(i = 0; i < f->n && *rc == OK; i++){
                *rc = kalign_read_input(f->path[i], &m, 1);
        }
        vh_count("library_calls");
        if(*rc == OK && m){
                *rc = kalign_run(m, 1, KALIGN_TYPE_UNDEFINED, -1.0f, -1.0f, -1.0f);
        }else if(*rc == OK){
                *rc = FAIL;
        }
        if(*rc == OK){
                unlink(out);
                *rc = kalign_write_msa(m, (char*)out, "fasta");
                if(*rc == OK){
                        data = vh_read_file(out, outlen);
                }
        }
        if(m){
                kalign_free_msa(m);
        }
        return data;
}

int vh_case(uint64_t id, int tier)
{
        struct kx_set s;
        struct files f, ref;
        int p = (int)(id % P_END), rc, rrc, i;
        char* want;
        char* got = NULL;
        size_t wl = 0, gl = 0;
        (void)tier;
        base_build(id / P_END, &s);
        /* reference: bare sequences in one FASTA file */
        for(i = 0; i < s.n; i++){
                strcpy(ROWS[i], s.seq[i]);
        }
        ref.n = 1;
        snprintf(ref.path[0], sizeof ref.path[0], "%s/ref.in", vh_tmpdir);
        write_fasta_rows(&s, 0, s.n, 0, ref.path[0]);
        want = run_files(&ref, &wl, &rrc);
        if(rrc != OK || !want){
                vh_fail("sem:reference-run-failed", "the bare FASTA input is rejected");
                kx_set_free(&s);
                return VH_OK;
        }
        if(!present(&s, p, &f)){
                free(want);
                kx_set_free(&s);
                return VH_SKIP;
        }
        if(f.use_stdin){
                struct kx_cli_result res;
                char* argv[12];
                const char* out = vh_tmp("c04.cli");
                int n = 0;
                unlink(out);
                argv[n++] = "kalign";
                for(i = 0; i < f.n; i++){
                        if(i == 0 && f.dash_i){
                                argv[n++] = "-i";
                        }
                        argv[n++] = f.path[i];
                }
                argv[n++] = "-o";
                argv[n++] = (char*)out;
                argv[n] = NULL;
                kx_cli(argv, f.stdin_path, NULL, &res, vh_tmpdir);
                vh_count("library_calls");
                vh_count("cli_runs");
                rc = (res.exited && res.status == 0) ? OK : FAIL;
                if(rc == OK){
                        got = vh_read_file(out, &gl);
                }
        }else{
                got = run_files(&f, &gl, &rc);
        }
        if(rc != OK || !got){
                char sig[80];
                snprintf(sig, sizeof sig, "sem:presentation-rejected.%s", (p < P_SPLIT || p >= P_LATE) ? "single-file" : (p < P_STDIN ? "split-files" : "stdin"));
                vh_fail(sig, "accepted as bare FASTA, rejected when presented as: %s", present_name(p));
        }else if(gl != wl || memcmp(got, want, wl) != 0){
                char sig[80];
                const char* cls = p < P_BLANK ? "wrap" : (p < P_PAD ? "blank-lines" : (p < P_GAP1 ? "padding" : (p < P_CLU ? "gaps" : (p < P_MSF ? "clustal" : (p < P_SPLIT ? "msf" : (p < P_STDIN ? "split-files" : (p < P_LATE ? "stdin" : (p < P_NONL ? "late-gaps" : (p < P_CRLF ? "no-final-newline" : (p < P_TAB ? "crlf" : "tab"))))))))));
                snprintf(sig, sizeof sig, "sem:presentation-changes-result.%s", cls);
                vh_fail(sig, "%s: output differs from the bare-FASTA run: got %.120s ... want %.120s", present_name(p), got, want);
        }else{
                if(strchr(want + 1, '-')){
                        vh_count("nontrivial_reference_has_gap");
                }
        }
        free(got);
        free(want);
        kx_set_free(&s);
        return VH_OK;
}
