/* C09 - the scoring parameters used are exactly the ones selected.
   Sections of the (finite, complete) case space:
     A  aln_param_init: 2 kinds x 6 type constants x 8 override subsets x 3 override values, differential against the no-override result;
        the same table observed end-to-end through kalign_run with the PARAMS hook
     B  command line: every documented --type word x 2 kinds x 8 override subsets: parameters observed through the hook inside the
        CLI's own main(), compared with aln_param_init for the constant of that name; exit status on kind mismatch; output == library output
     C  end to end: explicit defaults (each non-empty subset) == implicit defaults, on all pairs over {A,C,G} / {L,K,W} of length 1..3
     D  documented numbers (README) and matrix identity/difference facts */
#define KX_WITH_CLI
#include "vh.h"
#include "kx.h"

const char* vh_property = "C09";

#define NA 288
#define NB 80
static uint64_t NC;     /* computed */
#define ND 6

static const char* WORDS[5] = {"rna", "dna", "internal", "protein", "divergent"};
static const int WORD_TYPE[5] = {KALIGN_TYPE_RNA, KALIGN_TYPE_DNA, KALIGN_TYPE_DNA_INTERNAL, KALIGN_TYPE_PROTEIN, KALIGN_TYPE_PROTEIN_DIVERGENT};
static const char* KIND_SEQ[2][3] = {{"LKWLKDEL", "LKWKDEL", "WKWLDEL"}, {"ACGTACGT", "ACGACGT", "ACTTACG"}};       /* [biotype] : ALN_BIOTYPE_PROTEIN=0, DNA=1 */

struct pobs {
        int seen;
        float gpo, gpe, tgpe;
        float subm[23][23];
        int biotype;
};
static struct pobs* OBS;        /* shared memory: written by the hook (possibly in a child) */

static void observe(int ev, int a, int b, int c, const void* p, const void* q)
{
        (void)a; (void)b; (void)c;
        if(ev == KV_PARAMS){
                const struct aln_param* ap = p;
                const struct msa* m = q;
                int i, j;
                OBS->seen++;
                OBS->gpo = ap->gpo;
                OBS->gpe = ap->gpe;
                OBS->tgpe = ap->tgpe;
                OBS->biotype = m->biotype;
                for(i = 0; i < 23; i++){
                        for(j = 0; j < 23; j++){
                                OBS->subm[i][j] = ap->subm[i][j];
                        }
                }
        }
}

void vh_init(int tier)
{
        (void)tier;
        OBS = mmap(NULL, sizeof *OBS, PROT_READ | PROT_WRITE, MAP_SHARED | MAP_ANONYMOUS, -1, 0);
        NC = (uint64_t)(39 * 39) * 4 * 7 + (uint64_t)(39 * 39) * 3 * 7;
}

uint64_t vh_total(int tier)
{
        (void)tier;
        return NA + NB + NC + ND;
}

static int type_fits(int biotype, int type)
{
        if(type == KALIGN_TYPE_UNDEFINED){
                return 1;
        }
        if(biotype == ALN_BIOTYPE_DNA){
                return type == KALIGN_TYPE_DNA || type == KALIGN_TYPE_DNA_INTERNAL || type == KALIGN_TYPE_RNA;
        }
        return type == KALIGN_TYPE_PROTEIN || type == KALIGN_TYPE_PROTEIN_DIVERGENT;
}

static int same_matrix(float** a, float b[23][23])
{
        int i, j;
        for(i = 0; i < 23; i++){
                for(j = 0; j < 23; j++){
                        if(a[i][j] != b[i][j]){
                                return 0;
                        }
                }
        }
        return 1;
}

static int same_matrix2(float** a, float** b)
{
        int i, j;
        for(i = 0; i < 23; i++){
                for(j = 0; j < 23; j++){
                        if(a[i][j] != b[i][j]){
                                return 0;
                        }
                }
        }
        return 1;
}

static const char* subset_name(int s)
{
        static const char* n[8] = {"{}", "{gpo}", "{gpe}", "{gpo,gpe}", "{tgpe}", "{gpo,tgpe}", "{gpe,tgpe}", "{gpo,gpe,tgpe}"};
        return n[s & 7];
}

/* expectation rule shared by A and B: given base (no override) and the overrides, what must result */
static void judge_override(const char* where, int biotype, int type, int subset, float v[3], struct aln_param* base,
                           float gpo, float gpe, float tgpe, int matrix_same)
{
        float e_gpo = (subset & 1) ? v[0] : base->gpo;
        float e_gpe = (subset & 2) ? v[1] : base->gpe;
        float e_tgpe = (subset & 4) ? v[2] : base->tgpe;
        if(gpo != e_gpo){
                vh_fail("sem:override.gpo", "%s: kind=%d type=%s given %s: gpo is %g, expected %g", where, biotype, kx_type_name(type), subset_name(subset), gpo, e_gpo);
        }
        if(gpe != e_gpe){
                vh_fail("sem:override.gpe", "%s: kind=%d type=%s given %s: gpe is %g, expected %g", where, biotype, kx_type_name(type), subset_name(subset), gpe, e_gpe);
        }
        if(tgpe != e_tgpe){
                /* name the rule that explains it, so that a different cause gets a different signature */
                const char* sig = "sem:override.tgpe";
                if((subset & 4) && !(subset & 2) && tgpe == base->tgpe){
                        sig = "sem:override.tgpe-ignored-without-gpe";
                }else if(!(subset & 4) && (subset & 2) && tgpe == -1.0f){
                        sig = "sem:override.gpe-resets-tgpe";
                }
                vh_fail(sig, "%s: kind=%d type=%s given %s (values %g,%g,%g): tgpe is %g, expected %g", where, biotype, kx_type_name(type),
                        subset_name(subset), v[0], v[1], v[2], tgpe, e_tgpe);
        }
        if(!matrix_same){
                vh_fail("sem:override.matrix", "%s: kind=%d type=%s given %s: the substitution matrix changed", where, biotype, kx_type_name(type), subset_name(subset));
        }
}

static void values_for(int vk, struct aln_param* base, float v[3])
{
        if(vk == 0){
                v[0] = v[1] = v[2] = 0.0f;
        }else if(vk == 1){
                v[0] = base->gpo;
                v[1] = base->gpe;
                v[2] = base->tgpe;
        }else{
                v[0] = 3.25f;
                v[1] = 1.75f;
                v[2] = 2.5f;
        }
}

static void case_A(uint64_t id)
{
        int biotype = (int)(id % 2);
        int type = (int)((id / 2) % 6);
        int subset = (int)((id / 12) % 8);
        int vk = (int)(id / 96);
        struct aln_param* base = NULL;
        struct aln_param* ap = NULL;
        float v[3];
        int rb, ro;
        rb = aln_param_init(&base, biotype, 1, type, -1.0f, -1.0f, -1.0f);
        if(type_fits(biotype, type)){
                if(rb != OK){
                        vh_fail("sem:type-rejected", "aln_param_init rejects kind=%d type=%s", biotype, kx_type_name(type));
                        return;
                }
        }else{
                if(rb == OK){
                        vh_fail("sem:type-kind-mismatch-accepted", "aln_param_init accepts type=%s for %s sequences", kx_type_name(type),
                                biotype == ALN_BIOTYPE_DNA ? "nucleotide" : "protein");
                        aln_param_free(base);
                }
                /* the run must be rejected end to end as well */
                {
                        struct kx_set in;
                        struct msa* m;
                        int i;
                        kx_set_init(&in);
                        for(i = 0; i < 3; i++){
                                kx_set_addf(&in, KIND_SEQ[biotype][i], "s%d", i);
                        }
                        m = kx_make_msa(&in);
                        if(kalign_run(m, 1, type, -1, -1, -1) == OK){
                                vh_fail("sem:type-kind-mismatch-accepted", "kalign_run accepts type=%s for %s sequences", kx_type_name(type),
                                        biotype == ALN_BIOTYPE_DNA ? "nucleotide" : "protein");
                        }
                        kalign_free_msa(m);
                        {
                                /* the array entry point must reject it as well */
                                char** rows = NULL;
                                int alen = 0;
                                if(kx_kalign_arr(&in, 1, type, -1, -1, -1, &rows, &alen) == OK){
                                        vh_fail("sem:type-kind-mismatch-accepted.kalign", "kalign() accepts type=%s for %s sequences", kx_type_name(type),
                                                biotype == ALN_BIOTYPE_DNA ? "nucleotide" : "protein");
                                        kx_free_rows(rows, in.n);
                                }
                        }
                        kx_set_free(&in);
                }
                vh_count("rejections_checked");
                return;
        }
        values_for(vk, base, v);
        ro = aln_param_init(&ap, biotype, 1, type, (subset & 1) ? v[0] : -1.0f, (subset & 2) ? v[1] : -1.0f, (subset & 4) ? v[2] : -1.0f);
        if(ro != OK){
                vh_fail("sem:override-rejected", "aln_param_init fails with overrides %s", subset_name(subset));
                aln_param_free(base);
                return;
        }
        judge_override("aln_param_init", biotype, type, subset, v, base, ap->gpo, ap->gpe, ap->tgpe, same_matrix2(ap->subm, base->subm));
        /* end to end: what kalign_run really uses */
        {
                struct kx_set in;
                struct msa* m;
                int i;
                kx_set_init(&in);
                for(i = 0; i < 3; i++){
                        kx_set_addf(&in, KIND_SEQ[biotype][i], "s%d", i);
                }
                m = kx_make_msa(&in);
                memset(OBS, 0, sizeof *OBS);
                kalign_verif_hook = observe;
                if(kalign_run(m, 1, type, (subset & 1) ? v[0] : -1.0f, (subset & 2) ? v[1] : -1.0f, (subset & 4) ? v[2] : -1.0f) != OK){
                        vh_fail("sem:run-failed", "kalign_run failed with overrides %s", subset_name(subset));
                }else if(OBS->seen != 1){
                        vh_fail("sem:hook-missing", "PARAMS hook fired %d times", OBS->seen);
                }else{
                        if(OBS->biotype != biotype){
                                vh_fail("sem:kind-misdetected", "probe input detected as kind %d", OBS->biotype);
                        }
                        judge_override("kalign_run", biotype, type, subset, v, base, OBS->gpo, OBS->gpe, OBS->tgpe, same_matrix(base->subm, OBS->subm));
                }
                /* the array entry point kalign() must use the same parameters: same alignment as kalign_run with them */
                if(OBS->seen == 1){
                        char** rows = NULL;
                        int alen = 0, k;
                        memset(OBS, 0, sizeof *OBS);
                        if(kx_kalign_arr(&in, 1, type, (subset & 1) ? v[0] : -1.0f, (subset & 2) ? v[1] : -1.0f, (subset & 4) ? v[2] : -1.0f, &rows, &alen) != OK){
                                vh_fail("sem:run-failed.kalign", "kalign() failed where kalign_run succeeds");
                        }else{
                                if(OBS->seen == 1){
                                        judge_override("kalign()", biotype, type, subset, v, base, OBS->gpo, OBS->gpe, OBS->tgpe, same_matrix(base->subm, OBS->subm));
                                }
                                for(k = 0; k < in.n; k++){
                                        if(strcmp(rows[k], m->sequences[k]->seq) != 0){
                                                vh_fail("sem:kalign-differs-from-kalign_run", "type=%s %s: kalign() and kalign_run give different alignments", kx_type_name(type), subset_name(subset));
                                                break;
                                        }
                                }
                                kx_free_rows(rows, in.n);
                        }
                }
                kalign_verif_hook = NULL;
                kalign_free_msa(m);
                kx_set_free(&in);
        }
        if(subset){
                vh_count("nontrivial_override_cases");
        }
        aln_param_free(ap);
        aln_param_free(base);
}

static void case_B(uint64_t id)
{
        int w = (int)(id % 5);
        int biotype = (int)((id / 5) % 2);
        int subset = (int)(id / 10);
        int type = WORD_TYPE[w];
        struct kx_set in;
        struct kx_cli_result res;
        char* txt;
        const char* inpath = vh_tmp("b.fa");
        const char* outpath = vh_tmp("b.out");
        char* argv[20];
        char sv[3][32];
        int n = 0, i;
        float v[3] = {3.25f, 1.75f, 2.5f};
        struct aln_param* base = NULL;
        kx_set_init(&in);
        for(i = 0; i < 3; i++){
                kx_set_addf(&in, KIND_SEQ[biotype][i], "s%d", i);
        }
        txt = kx_fasta_text(&in, 0);
        vh_write_file(inpath, txt, strlen(txt));
        free(txt);
        unlink(outpath);
        argv[n++] = "kalign";
        argv[n++] = "--type";
        argv[n++] = (char*)WORDS[w];
        for(i = 0; i < 3; i++){
                static const char* on[3] = {"--gpo", "--gpe", "--tgpe"};
                if(subset & (1 << i)){
                        snprintf(sv[i], sizeof sv[i], "%g", v[i]);
                        argv[n++] = (char*)on[i];
                        argv[n++] = sv[i];
                }
        }
        argv[n++] = "-i";
        argv[n++] = (char*)inpath;
        argv[n++] = "-o";
        argv[n++] = (char*)outpath;
        argv[n] = NULL;
        memset(OBS, 0, sizeof *OBS);
        kx_cli(argv, NULL, observe, &res, vh_tmpdir);
        vh_count("library_calls");
        if(!res.exited){
                vh_fail("sem:cli-crashed", "CLI killed by signal %d for --type %s", res.status, WORDS[w]);
        }else if(!type_fits(biotype, type)){
                if(res.status == 0){
                        vh_fail("sem:type-kind-mismatch-accepted", "CLI exits 0 for --type %s on %s sequences", WORDS[w], biotype == ALN_BIOTYPE_DNA ? "nucleotide" : "protein");
                }else if(res.errn + res.outn == 0){
                        vh_fail("sem:no-diagnostic", "CLI fails without any message for --type %s", WORDS[w]);
                }
                if(access(outpath, F_OK) == 0 && res.status != 0){
                        size_t fl = 0;
                        char* d = vh_read_file(outpath, &fl);
                        if(fl){
                                vh_fail("sem:output-on-failure", "CLI failed but wrote an alignment");
                        }
                        free(d);
                }
                vh_count("rejections_checked");
        }else if(res.status != 0){
                vh_fail("sem:word-rejected", "CLI fails (exit %d) for documented --type %s on matching sequences: %.200s", res.status, WORDS[w], res.err);
        }else if(OBS->seen != 1){
                vh_fail("sem:hook-missing", "PARAMS hook fired %d times in the CLI", OBS->seen);
        }else if(aln_param_init(&base, biotype, 1, type, -1.0f, -1.0f, -1.0f) != OK){
                vh_fail("sem:type-rejected", "aln_param_init rejects constant for word %s", WORDS[w]);
        }else{
                /* the word must select the constant of that name: same matrix and (without overrides) the same penalties */
                if(!same_matrix(base->subm, OBS->subm) || (subset == 0 && (OBS->gpo != base->gpo || OBS->gpe != base->gpe || OBS->tgpe != base->tgpe))){
                        int k, hit = -1;
                        for(k = 0; k < 5; k++){
                                struct aln_param* o = NULL;
                                if(aln_param_init(&o, biotype, 1, WORD_TYPE[k], -1.0f, -1.0f, -1.0f) == OK){
                                        if(hit < 0 && same_matrix(o->subm, OBS->subm) && o->tgpe == OBS->tgpe && subset == 0){
                                                hit = k;
                                        }
                                        aln_param_free(o);
                                }
                        }
                        {
                                char sig[64];
                                snprintf(sig, sizeof sig, "sem:word-%s-selects-%s", WORDS[w], hit >= 0 ? WORDS[hit] : "other");
                                vh_fail(sig, "--type %s does not select the parameters of the constant of that name (gpo %g gpe %g tgpe %g)", WORDS[w],
                                        OBS->gpo, OBS->gpe, OBS->tgpe);
                        }
                }else{
                        judge_override("CLI", biotype, type, subset, v, base, OBS->gpo, OBS->gpe, OBS->tgpe, 1);
                }
                /* CLI output == library output with the constant */
                {
                        struct msa* m = NULL;
                        const char* libout = vh_tmp("b.lib");
                        if(kalign_read_input((char*)inpath, &m, 1) == OK && m &&
                           kalign_run(m, 1, type, (subset & 1) ? v[0] : -1.0f, (subset & 2) ? v[1] : -1.0f, (subset & 4) ? v[2] : -1.0f) == OK &&
                           kalign_write_msa(m, (char*)libout, "fasta") == OK){
                                size_t a, b;
                                char* da = vh_read_file(outpath, &a);
                                char* db = vh_read_file(libout, &b);
                                if(!da || !db || a != b || memcmp(da, db, a) != 0){
                                        vh_fail("sem:cli-differs-from-library", "--type %s %s: CLI output differs from the library run with the constant", WORDS[w], subset_name(subset));
                                }
                                free(da);
                                free(db);
                        }
                        if(m){
                                kalign_free_msa(m);
                        }
                }
                aln_param_free(base);
                vh_count("nontrivial_override_cases");
        }
        kx_set_free(&in);
}

static int run_rows(const char* a, const char* b, int type, float gpo, float gpe, float tgpe, char*** rows, int* alen)
{
        struct kx_set in;
        int rc;
        kx_set_init(&in);
        kx_set_add(&in, a, "a");
        kx_set_add(&in, b, "b");
        rc = kx_kalign_arr(&in, 1, type, gpo, gpe, tgpe, rows, alen);
        kx_set_free(&in);
        return rc;
}

static void case_C(uint64_t id)
{
        int protein = id >= (uint64_t)(39 * 39) * 4 * 7;
        const char* alpha = protein ? "LKW" : "ACG";
        int nt = protein ? 3 : 4;
        static const int DT[4] = {KALIGN_TYPE_DNA, KALIGN_TYPE_DNA_INTERNAL, KALIGN_TYPE_RNA, KALIGN_TYPE_UNDEFINED};
        static const int PT[3] = {KALIGN_TYPE_PROTEIN, KALIGN_TYPE_PROTEIN_DIVERGENT, KALIGN_TYPE_UNDEFINED};
        int subset, type;
        char a[8], b[8];
        struct aln_param* base = NULL;
        char** r0 = NULL;
        char** r1 = NULL;
        int l0 = 0, l1 = 0;
        if(protein){
                id -= (uint64_t)(39 * 39) * 4 * 7;
        }
        subset = (int)(id % 7) + 1;
        id /= 7;
        type = protein ? PT[id % (uint64_t)nt] : DT[id % (uint64_t)nt];
        id /= (uint64_t)nt;
        kx_nth_string(id % 39, alpha, 1, 3, a);
        kx_nth_string(id / 39, alpha, 1, 3, b);
        if(aln_param_init(&base, protein ? ALN_BIOTYPE_PROTEIN : ALN_BIOTYPE_DNA, 1, type, -1.0f, -1.0f, -1.0f) != OK){
                vh_fail("sem:type-rejected", "aln_param_init rejects an admissible type");
                return;
        }
        vh_add("library_calls", 2);
        if(run_rows(a, b, type, -1.0f, -1.0f, -1.0f, &r0, &l0) != OK ||
           run_rows(a, b, type, (subset & 1) ? base->gpo : -1.0f, (subset & 2) ? base->gpe : -1.0f, (subset & 4) ? base->tgpe : -1.0f, &r1, &l1) != OK){
                vh_fail("sem:run-failed", "kalign() failed");
        }else if(l0 != l1 || strcmp(r0[0], r1[0]) != 0 || strcmp(r0[1], r1[1]) != 0){
                vh_fail("sem:explicit-default-differs", "type %s: passing the defaults %s explicitly changes the alignment: %s/%s vs %s/%s",
                        kx_type_name(type), subset_name(subset), r0[0], r0[1], r1[0], r1[1]);
        }else if(kx_has_gap(r0, 2)){
                vh_count("nontrivial_override_cases");
        }
        kx_free_rows(r0, 2);
        kx_free_rows(r1, 2);
        aln_param_free(base);
}

static void case_D(uint64_t id)
{
        struct aln_param* dna = NULL;
        struct aln_param* internal = NULL;
        struct aln_param* rna = NULL;
        struct aln_param* prot = NULL;
        struct aln_param* div = NULL;
        int i, j;
        aln_param_init(&dna, ALN_BIOTYPE_DNA, 1, KALIGN_TYPE_DNA, -1, -1, -1);
        aln_param_init(&internal, ALN_BIOTYPE_DNA, 1, KALIGN_TYPE_DNA_INTERNAL, -1, -1, -1);
        aln_param_init(&rna, ALN_BIOTYPE_DNA, 1, KALIGN_TYPE_RNA, -1, -1, -1);
        aln_param_init(&prot, ALN_BIOTYPE_PROTEIN, 1, KALIGN_TYPE_PROTEIN, -1, -1, -1);
        aln_param_init(&div, ALN_BIOTYPE_PROTEIN, 1, KALIGN_TYPE_PROTEIN_DIVERGENT, -1, -1, -1);
        if(!dna || !internal || !rna || !prot || !div){
                vh_fail("sem:type-rejected", "a documented type is rejected for its own kind");
                return;
        }
        switch(id){
        case 0:
                for(i = 0; i < 4; i++){
                        for(j = 0; j < 4; j++){
                                if(dna->subm[i][j] != (i == j ? 5.0f : -4.0f)){
                                        vh_fail("sem:readme.dna-matrix", "dna: score[%d][%d] = %g (documented: 5 match, -4 mismatch)", i, j, dna->subm[i][j]);
                                        i = 4;
                                        break;
                                }
                        }
                }
                break;
        case 1:
                if(dna->gpo != 8.0f || dna->gpe != 6.0f || dna->tgpe != 0.0f){
                        vh_fail("sem:readme.dna-gaps", "dna penalties %g/%g/%g (documented 8/6/0)", dna->gpo, dna->gpe, dna->tgpe);
                }
                break;
        case 2:
                if(!same_matrix2(dna->subm, internal->subm) || internal->gpo != dna->gpo || internal->gpe != dna->gpe || internal->tgpe != 8.0f){
                        vh_fail("sem:readme.internal", "internal is not 'dna with terminal gaps 8'");
                }
                break;
        case 3:
                if(same_matrix2(prot->subm, div->subm)){
                        vh_fail("sem:readme.protein-matrices", "protein and divergent select the same matrix");
                }
                break;
        case 4:
                if(same_matrix2(rna->subm, dna->subm)){
                        vh_fail("sem:readme.rna", "rna and dna select the same matrix");
                }
                break;
        default:
                /* default (undefined) == documented defaults: protein for protein; the help text names rna for nucleotides */
                {
                        struct aln_param* u = NULL;
                        aln_param_init(&u, ALN_BIOTYPE_PROTEIN, 1, KALIGN_TYPE_UNDEFINED, -1, -1, -1);
                        if(!u || !same_matrix2(u->subm, prot->subm) || u->gpo != prot->gpo){
                                vh_fail("sem:readme.default-protein", "default for protein is not the `protein` set");
                        }
                        aln_param_free(u);
                }
                break;
        }
        vh_count("nontrivial_override_cases");
        aln_param_free(dna);
        aln_param_free(internal);
        aln_param_free(rna);
        aln_param_free(prot);
        aln_param_free(div);
}

void vh_describe(uint64_t id, int tier, char* buf, size_t n)
{
        (void)tier;
        if(id < NA){
                snprintf(buf, n, "A: aln_param_init+kalign_run kind=%s type=%s overrides=%s values=%s", (id % 2) ? "nucleotide" : "protein",
                         kx_type_name((int)((id / 2) % 6)), subset_name((int)((id / 12) % 8)), (const char*[]){"0", "type-default", "3.25/1.75/2.5"}[id / 96]);
        }else if(id < NA + NB){
                id -= NA;
                snprintf(buf, n, "B: CLI --type %s on %s with overrides %s", WORDS[id % 5], ((id / 5) % 2) ? "nucleotide" : "protein", subset_name((int)(id / 10)));
        }else if(id < NA + NB + NC){
                snprintf(buf, n, "C: explicit-default run == default run, case %llu", (unsigned long long)(id - NA - NB));
        }else{
                snprintf(buf, n, "D: documented fact %llu", (unsigned long long)(id - NA - NB - NC));
        }
}

int vh_case(uint64_t id, int tier)
{
        (void)tier;
        if(id < NA){
                case_A(id);
        }else if(id < NA + NB){
                case_B(id - NA);
        }else if(id < NA + NB + NC){
                case_C(id - NA - NB);
        }else{
                case_D(id - NA - NB - NC);
        }
        return VH_OK;
}
