/* C05 - no memory error, crash or hang on any input; failures are reported as failures.
   Sections: (A) every string of <= N tokens as an input file; (B) deviation-bounded mutations of
   well-formed FASTA / aligned FASTA / Clustal / MSF files plus oversized shapes.
   Oracle: the pipeline read -> run -> write(3 formats) -> free returns; on success the alignment is a valid
   alignment (C01 predicate) of the sequences the reader reported; sanitizers stay silent; nothing leaks
   (the driver runs with --leakcheck). */
#include "vh.h"
#include "kx.h"

const char* vh_property = "C05";

static const char* TOK[] = {">", "A", "c", "X", "J", "-", ".", " ", "\t", "\n", "\r", "\xC3", "\xA9", "1", "*", "U",
                            "CLUSTAL W\n", " MSF: 1 Type: N Check: 0 ..\n", " Name: a Len: 1\n", "//\n", "a  "};
#define NTOK 21
static int NMAX(int tier) { return tier ? 5 : 4; }

static uint64_t secA(int tier)
{
        uint64_t t = 0, p = 1;
        int d;
        for(d = 1; d <= NMAX(tier); d++){
                p *= NTOK;
                t += p;
        }
        return t;
}

/* ---- section B: seeds ---- */
static const char* SEED[4] = {
        ">s1 first\nACGTAC\nGT\n>s2\nACGAC\n>s3\nTTGACGT\n",
        ">s1\nAC-GTAC\n>s2\nACGGT-C\n>s3\n-CGGTAC\n",
        "CLUSTAL W (1.83) multiple sequence alignment\n\ns1        LKWDEL-KW\ns2        LKW-ELGKW\ns3        -KWDEL-KW\n          ***  * **\n\ns1        AV\ns2        A-\ns3        AV\n",
        "!!NA_MULTIPLE_ALIGNMENT 1.0\n\n x.msf  MSF: 8  Type: N  Check: 1234  ..\n\n Name: s1  Len: 8  Check: 1  Weight: 1.00\n Name: s2  Len: 8  Check: 2  Weight: 1.00\n\n//\n\ns1  ACGT.ACG\ns2  AC.TTACG\n\ns1  TT\ns2  T.\n",
};
static const char REPL[] = ">A-. \n\r\xC3*1/:cXJ";
#define NREPL 16
#define NTWO 96          /* two files read into one msa: record counts on / next to the 512-record growth steps */
#define NLATE 8          /* more than 50 records, punctuation only in the last ones */
#define NSPECIAL (28 + NTWO + NLATE)    /* 10 oversized shapes + 6 lengths around the 512-byte buffer steps x 3 formats + two-file cases */

struct mut { int kind; int pos; int arg; };      /* 0 none, 1 truncate at pos, 2 delete line, 3 duplicate line, 4 swap line with next, 5 replace byte pos by REPL[arg] */

static int nlines(const char* s)
{
        int n = 0;
        for(; *s; s++){
                n += *s == '\n';
        }
        return n;
}

static uint64_t n1(int seed)
{
        uint64_t len = strlen(SEED[seed]);
        return 1 + len + 3 * (uint64_t)nlines(SEED[seed]) + len * NREPL;
}

static void mut_decode(int seed, uint64_t k, struct mut* m)
{
        uint64_t len = strlen(SEED[seed]), nl = (uint64_t)nlines(SEED[seed]);
        if(k == 0){
                m->kind = 0;
                return;
        }
        k--;
        if(k < len){
                m->kind = 1;
                m->pos = (int)k;
                return;
        }
        k -= len;
        if(k < 3 * nl){
                m->kind = 2 + (int)(k / nl);
                m->pos = (int)(k % nl);
                return;
        }
        k -= 3 * nl;
        m->kind = 5;
        m->pos = (int)(k / NREPL);
        m->arg = (int)(k % NREPL);
}

static size_t mut_apply(const char* in, size_t len, const struct mut* m, char* out)
{
        size_t o = 0, i;
        if(m->kind == 0){
                memcpy(out, in, len);
                return len;
        }
        if(m->kind == 1){
                memcpy(out, in, (size_t)m->pos);
                return (size_t)m->pos;
        }
        if(m->kind == 5){
                memcpy(out, in, len);
                if((size_t)m->pos < len){
                        out[m->pos] = REPL[m->arg];
                }
                return len;
        }
        {
                /* line operations */
                int line = 0;
                size_t ls = 0;
                const char* nxt_s = NULL;
                size_t nxt_l = 0;
                for(i = 0; i <= len; i++){
                        if(i == len || in[i] == '\n'){
                                size_t ll = i - ls + (i < len ? 1 : 0);
                                if(ll == 0){
                                        break;
                                }
                                if(line == m->pos){
                                        if(m->kind == 2){
                                                /* delete */
                                        }else if(m->kind == 3){
                                                memcpy(out + o, in + ls, ll);
                                                o += ll;
                                                memcpy(out + o, in + ls, ll);
                                                o += ll;
                                        }else{
                                                /* swap with next: emit next first */
                                                size_t j = i + 1, e = j;
                                                while(e < len && in[e] != '\n'){
                                                        e++;
                                                }
                                                if(j < len){
                                                        nxt_s = in + j;
                                                        nxt_l = e - j + (e < len ? 1 : 0);
                                                        memcpy(out + o, nxt_s, nxt_l);
                                                        o += nxt_l;
                                                }
                                                memcpy(out + o, in + ls, ll);
                                                o += ll;
                                                if(j < len){
                                                        i = j + nxt_l - 1;
                                                        line++;
                                                }
                                        }
                                }else{
                                        memcpy(out + o, in + ls, ll);
                                        o += ll;
                                }
                                line++;
                                ls = i + 1;
                        }
                }
        }
        return o;
}

static uint64_t secB(int tier)
{
        uint64_t t = 0;
        int s;
        for(s = 0; s < 4; s++){
                uint64_t a = n1(s);
                /* thorough: second deviation = any line operation or truncation combined with any first deviation */
                t += a;
                if(tier){
                        t += a * (strlen(SEED[s]) + 3 * (uint64_t)nlines(SEED[s]));
                }
        }
        return t + NSPECIAL;
}

/* ---- section E: the array entry point kalign() on raw bytes: 2 sequences of 1..2 bytes, 3 sequences of 1 byte ---- */
static const unsigned char ABYTE[] = {'A', 'c', 'X', 'U', 'J', '1', '*', ' ', '\n', 0x01, 0x7F, 0x80, 0xC3, 0xFC, 0xFF, '-'};
#define NABYTE 16
#define NASTR (NABYTE + NABYTE * NABYTE)
static uint64_t secE(void) { return (uint64_t)NASTR * NASTR + (uint64_t)NABYTE * NABYTE * NABYTE; }

/* ---- section F: length sweep: the work buffers of a merge (DP rows, path) are sized from the two lengths and grow in steps
   (256, 384, 576, 864, 1296, ...): every total length T in 60..1400 as a pair (T/2, T - T/2) and as a pair (T/3, T - T/3), and as
   a triple whose last merge joins a sequence of T - 70 residues to a 70-column group; array entry point, ASan ---- */
#define FT_LO 60
#define FT_HI 1400
static uint64_t secF(void) { return (uint64_t)(FT_HI - FT_LO + 1) * 3; }

uint64_t vh_total(int tier) { return secA(tier) + secB(tier) + secE() + secF(); }
static int array_decode(uint64_t e, struct kx_set* in, char* desc, size_t dn);
static int sweep_case(uint64_t f, int* success, char* desc, size_t dn);

static char* BUF;
static size_t BUFN;
static char* BUF2;      /* second input file, read into the same msa (two-file cases only) */
static size_t BUF2N;
static int EXPECT_N;

/* n records in format fmt (0 FASTA, 1 Clustal, 2 MSF); short protein records, every one different */
static size_t many_records(char* out, int n, int fmt, char tag)
{
        size_t o = 0;
        int i;
        static const char* V[4] = {"LKWDELAV", "LKWELAV", "LRWDELGV", "LKWDDLAV"};
        static const char* G[4] = {"LKWDELAV", "LKW-ELAV", "LRWDELGV", "LKWDDLAV"};
        if(fmt == 0){
                for(i = 0; i < n; i++){
                        o += (size_t)sprintf(out + o, ">%c%d\n%s%c\n", tag, i, V[i % 4], "ACDEFGHIKLMNPQRSTVWY"[(i / 4) % 20]);
                }
        }else if(fmt == 1){
                o += (size_t)sprintf(out + o, "CLUSTAL W (1.83) multiple sequence alignment\n\n");
                for(i = 0; i < n; i++){
                        o += (size_t)sprintf(out + o, "%c%d      %s%c\n", tag, i, G[i % 4], "ACDEFGHIKLMNPQRSTVWY"[(i / 4) % 20]);
                }
        }else{
                o += (size_t)sprintf(out + o, "!!AA_MULTIPLE_ALIGNMENT 1.0\n\n x.msf  MSF: 9  Type: P  Check: 1  ..\n\n");
                for(i = 0; i < n; i++){
                        o += (size_t)sprintf(out + o, " Name: %c%d  Len: 9  Check: 1  Weight: 1.00\n", tag, i);
                }
                o += (size_t)sprintf(out + o, "\n//\n\n");
                for(i = 0; i < n; i++){
                        const char* g = G[i % 4];
                        char row[16];
                        int j;
                        for(j = 0; g[j]; j++){
                                row[j] = g[j] == '-' ? '.' : g[j];
                        }
                        row[j] = 0;
                        o += (size_t)sprintf(out + o, "%c%d  %s%c\n", tag, i, row, "ACDEFGHIKLMNPQRSTVWY"[(i / 4) % 20]);
                }
        }
        return o;
}

static void build_input(uint64_t id, int tier, char* desc, size_t dn)
{
        static char tmp1[1 << 20], tmp2[1 << 20];
        if(!BUF){
                BUF = malloc(1 << 22);
        }
        BUFN = 0;
        BUF2N = 0;
        if(id < secA(tier)){
                uint64_t p = 1, x = id;
                int d, i, tk[8];
                size_t o = 0;
                for(d = 1; d <= NMAX(tier); d++){
                        p *= NTOK;
                        if(x < p){
                                break;
                        }
                        x -= p;
                }
                for(i = d - 1; i >= 0; i--){
                        tk[i] = (int)(x % NTOK);
                        x /= NTOK;
                }
                for(i = 0; i < d; i++){
                        size_t l = strlen(TOK[tk[i]]);
                        memcpy(BUF + o, TOK[tk[i]], l);
                        o += l;
                }
                BUFN = o;
                if(desc){
                        snprintf(desc, dn, "A: file of %d tokens", d);
                }
                return;
        }
        id -= secA(tier);
        {
                int s;
                for(s = 0; s < 4; s++){
                        uint64_t a = n1(s), second = tier ? strlen(SEED[s]) + 3 * (uint64_t)nlines(SEED[s]) : 0;
                        uint64_t sz = a + a * second;
                        if(id < sz){
                                struct mut m1, m2;
                                size_t l;
                                if(id < a){
                                        mut_decode(s, id, &m1);
                                        BUFN = mut_apply(SEED[s], strlen(SEED[s]), &m1, BUF);
                                        if(desc){
                                                snprintf(desc, dn, "B: seed %d (%s) with mutation kind %d at %d/%d", s, (const char*[]){"FASTA", "aligned FASTA", "Clustal", "MSF"}[s], m1.kind, m1.pos, m1.arg);
                                        }
                                }else{
                                        id -= a;
                                        mut_decode(s, id % a, &m1);
                                        mut_decode(s, 1 + id / a, &m2);          /* 1.. : truncations and line operations */
                                        l = mut_apply(SEED[s], strlen(SEED[s]), &m1, tmp1);
                                        tmp1[l] = 0;
                                        if(m2.kind == 1 && (size_t)m2.pos > l){
                                                m2.pos = (int)l;
                                        }
                                        BUFN = mut_apply(tmp1, l, &m2, BUF);
                                        if(desc){
                                                snprintf(desc, dn, "B: seed %d with two mutations: kind %d at %d/%d then kind %d at %d", s, m1.kind, m1.pos, m1.arg, m2.kind, m2.pos);
                                        }
                                }
                                return;
                        }
                        id -= sz;
                }
                /* specials */
                {
                        size_t o = 0;
                        int i, k = (int)id;
                        (void)tmp2;
                        if(k >= 28 + NTWO){
                                static const int NL[4] = {51, 52, 64, 130};
                                int q = k - 28 - NTWO, n = NL[q % 4], kind = q / 4;
                                for(i = 0; i < n; i++){
                                        const char* tail = "";
                                        if(i >= n - 2){
                                                tail = kind ? (i == n - 1 ? "*" : ".") : "-";
                                        }
                                        o += (size_t)sprintf(BUF + o, ">late%d\nLKWD%.*s%s%c\n", i, i % 5, "ELAVG", (i == n - 1 || kind) ? tail : "", "ACDEFGHIKL"[i % 10]);
                                        if(i == n - 2 && !kind){
                                                o -= 2;
                                                o += (size_t)sprintf(BUF + o, "-%c\n", "ACDEFGHIKL"[i % 10]);
                                        }
                                }
                                BUFN = o;
                                if(desc){
                                        snprintf(desc, dn, "B: %d FASTA records of differing lengths, punctuation (%s) only in the last two", n, kind ? ". and *" : "-");
                                }
                                return;
                        }
                        if(k >= 28){
                                /* two files into one msa: the first leaves the sequence table exactly full, one short of full, ... */
                                static const int N1[8] = {1, 2, 511, 512, 513, 1023, 1024, 1025};
                                static const int N2[4] = {1, 3, 512, 513};
                                int q = k - 28, n1 = N1[q % 8], fmt = (q / 8) % 3, n2 = N2[q / 24];
                                if(!BUF2){
                                        BUF2 = malloc(1 << 20);
                                }
                                BUFN = many_records(BUF, n1, fmt, 'r');
                                BUF2N = many_records(BUF2, n2, 0, 'z');
                                EXPECT_N = n1 + n2;
                                if(desc){
                                        snprintf(desc, dn, "B: two files into one msa: %d records (%s) then %d records (fasta)", n1, fmt == 0 ? "fasta" : (fmt == 1 ? "clustal" : "msf"), n2);
                                }
                                return;
                        }
                        switch(k){
                        case 0: case 1: {       /* huge name: 300 / 5000 bytes, FASTA */
                                int nl = k ? 5000 : 300;
                                BUF[o++] = '>';
                                for(i = 0; i < nl; i++){
                                        BUF[o++] = (char)('a' + i % 26);
                                }
                                o += (size_t)sprintf(BUF + o, "\nACGTACGT\n>b\nACGTTCGT\n");
                                break;
                        }
                        case 2: case 3: {       /* huge name in Clustal / MSF body */
                                int nl = 400;
                                char nm[512];
                                for(i = 0; i < nl; i++){
                                        nm[i] = (char)('a' + i % 26);
                                }
                                nm[nl] = 0;
                                if(k == 2){
                                        o += (size_t)sprintf(BUF + o, "CLUSTAL W (1.83) multiple sequence alignment\n\n%s ACGT-ACG\nb ACGTTACG\n", nm);
                                }else{
                                        o += (size_t)sprintf(BUF + o, "!!NA_MULTIPLE_ALIGNMENT 1.0\n\n x.msf  MSF: 8  Type: N  Check: 1  ..\n\n Name: %s  Len: 8  Check: 1  Weight: 1.00\n Name: b  Len: 8  Check: 2  Weight: 1.00\n\n//\n\n%s  ACGT.ACG\nb  ACGTTACG\n", nm, nm);
                                }
                                break;
                        }
                        case 4:                 /* more than 512 records (FASTA) */
                                for(i = 0; i < 1100; i++){
                                        o += (size_t)sprintf(BUF + o, ">r%d\nACGT%s\n", i, (i % 3) ? "AC" : "G");
                                }
                                break;
                        case 5:                 /* more than 512 body lines in one Clustal block */
                                o += (size_t)sprintf(BUF + o, "CLUSTAL W (1.83) multiple sequence alignment\n\n");
                                for(i = 0; i < 700; i++){
                                        o += (size_t)sprintf(BUF + o, "q%d  ACG%sT\n", i, (i % 2) ? "-" : "A");
                                }
                                break;
                        case 6:                 /* MSF body with more lines than declared names */
                                o += (size_t)sprintf(BUF + o, "!!NA_MULTIPLE_ALIGNMENT 1.0\n\n x.msf  MSF: 4  Type: N  Check: 1  ..\n\n Name: a  Len: 4  Check: 1  Weight: 1.00\n Name: b  Len: 4  Check: 2  Weight: 1.00\n\n//\n\n");
                                for(i = 0; i < 700; i++){
                                        o += (size_t)sprintf(BUF + o, "z%d  ACGT\n", i);
                                }
                                break;
                        case 7:                 /* a very long single line */
                                o += (size_t)sprintf(BUF + o, ">a\n");
                                for(i = 0; i < 200000; i++){
                                        BUF[o++] = "ACGT"[i % 4];
                                }
                                o += (size_t)sprintf(BUF + o, "\n>b\nACGTACGTAC\n");
                                break;
                        case 8:                 /* > 1024 lines */
                                for(i = 0; i < 3000; i++){
                                        o += (size_t)sprintf(BUF + o, "%s\n", i % 1000 == 0 ? ">x" : "AC");
                                }
                                break;
                        case 9:                 /* MSF with 600 names */
                                o += (size_t)sprintf(BUF + o, "!!NA_MULTIPLE_ALIGNMENT 1.0\n\n x.msf  MSF: 4  Type: N  Check: 1  ..\n\n");
                                for(i = 0; i < 600; i++){
                                        o += (size_t)sprintf(BUF + o, " Name: n%d  Len: 4  Check: 1  Weight: 1.00\n", i);
                                }
                                o += (size_t)sprintf(BUF + o, "\n//\n\n");
                                for(i = 0; i < 600; i++){
                                        o += (size_t)sprintf(BUF + o, "n%d  AC%sT\n", i, (i % 2) ? "." : "G");
                                }
                                break;
                        default: {              /* sequences whose residue count sits on / next to the 512-byte growth steps of the sequence buffers */
                                static const int BL[6] = {511, 512, 513, 1024, 1025, 1536};
                                int q = k - 10, len = BL[q % 6], fmt = q / 6, b;
                                static char s1[2048], s2[2048];
                                for(i = 0; i < len; i++){
                                        s1[i] = "ACGT"[(i * 7 + i / 5) % 4];
                                        s2[i] = "ACGT"[(i * 7 + i / 5 + (i % 97 == 3)) % 4];
                                }
                                s1[len] = 0;
                                s2[len - 3] = 0;        /* second sequence 3 residues shorter */
                                if(fmt == 0){
                                        o += (size_t)sprintf(BUF + o, ">a\n%s\n>b\n%s\n", s1, s2);
                                }else if(fmt == 1){
                                        o += (size_t)sprintf(BUF + o, "CLUSTAL W (1.83) multiple sequence alignment\n\n");
                                        for(b = 0; b < len; b += 60){
                                                o += (size_t)sprintf(BUF + o, "a    %.60s\nb    %.60s%s\n\n", s1 + b, b < len - 3 ? s2 + b : "", (b + 60 >= len) ? "---" : "");
                                        }
                                }else{
                                        o += (size_t)sprintf(BUF + o, "!!NA_MULTIPLE_ALIGNMENT 1.0\n\n x.msf  MSF: %d  Type: N  Check: 1  ..\n\n Name: a  Len: %d  Check: 1  Weight: 1.00\n Name: b  Len: %d  Check: 2  Weight: 1.00\n\n//\n\n", len, len, len);
                                        for(b = 0; b < len; b += 60){
                                                o += (size_t)sprintf(BUF + o, "a    %.60s\nb    %.60s%s\n\n", s1 + b, b < len - 3 ? s2 + b : "", (b + 60 >= len) ? "..." : "");
                                        }
                                }
                                break;
                        }
                        }
                        BUFN = o;
                        if(desc){
                                snprintf(desc, dn, "B: oversized shape %d (%zu bytes)", k, o);
                        }
                }
        }
}

void vh_describe(uint64_t id, int tier, char* buf, size_t n)
{
        char d[200];
        size_t o, i;
        if(id >= secA(tier) + secB(tier) + secE()){
                int ok;
                sweep_case(id - secA(tier) - secB(tier) - secE(), &ok, buf, n);
                return;
        }
        if(id >= secA(tier) + secB(tier)){
                struct kx_set in;
                array_decode(id - secA(tier) - secB(tier), &in, buf, n);
                kx_set_free(&in);
                return;
        }
        build_input(id, tier, d, sizeof d);
        o = (size_t)snprintf(buf, n, "%s; bytes=\"", d);
        for(i = 0; i < BUFN && i < 160 && o + 8 < n; i++){
                unsigned char c = (unsigned char)BUF[i];
                if(c == '\n'){
                        o += (size_t)snprintf(buf + o, n - o, "\\n");
                }else if(c == '\t'){
                        o += (size_t)snprintf(buf + o, n - o, "\\t");
                }else if(c == '\r'){
                        o += (size_t)snprintf(buf + o, n - o, "\\r");
                }else if(c < 32 || c >= 127){
                        o += (size_t)snprintf(buf + o, n - o, "\\x%02X", c);
                }else{
                        buf[o++] = (char)c;
                }
        }
        snprintf(buf + o, n - o, "\"%s", BUFN > 160 ? "..." : "");
}

static int abuild(uint64_t k, char* out)
{
        if(k < NABYTE){
                out[0] = (char)ABYTE[k];
                out[1] = 0;
                return 1;
        }
        k -= NABYTE;
        out[0] = (char)ABYTE[k / NABYTE];
        out[1] = (char)ABYTE[k % NABYTE];
        out[2] = 0;
        return 2;
}

static int array_decode(uint64_t e, struct kx_set* in, char* desc, size_t dn)
{
        char b[3][4];
        int n, i, hasgap = 0;
        size_t o = 0;
        int len[3];
        if(e < (uint64_t)NASTR * NASTR){
                n = 2;
                len[0] = abuild(e / NASTR, b[0]);
                len[1] = abuild(e % NASTR, b[1]);
        }else{
                e -= (uint64_t)NASTR * NASTR;
                n = 3;
                for(i = 0; i < 3; i++){
                        b[i][0] = (char)ABYTE[e % NABYTE];
                        b[i][1] = 0;
                        len[i] = 1;
                        e /= NABYTE;
                }
        }
        kx_set_init(in);
        if(desc){
                o = (size_t)snprintf(desc, dn, "E: kalign() on %d byte strings:", n);
        }
        for(i = 0; i < n; i++){
                char nm[8];
                int j;
                snprintf(nm, sizeof nm, "SEQ%d", i + 1);
                kx_set_add(in, b[i], nm);
                for(j = 0; j < len[i]; j++){
                        hasgap |= b[i][j] == '-';
                        if(desc && o + 8 < dn){
                                o += (size_t)snprintf(desc + o, dn - o, "%s\\x%02X", j ? "" : " ", (unsigned char)b[i][j]);
                        }
                }
        }
        return hasgap;
}

static int sweep_case(uint64_t f, int* success, char* desc, size_t dn)
{
        int T = FT_LO + (int)(f / 3), kind = (int)(f % 3), i, rc, alnlen = 0;
        struct kx_set in;
        static char a[1500], b[1500], c[80];
        char** rows = NULL;
        char why[300];
        int la = kind == 0 ? T / 2 : (kind == 1 ? T / 3 : 70), lb = kind == 2 ? T - 70 : T - la;
        *success = 0;
        if(lb < 1){
                lb = 1;
        }
        for(i = 0; i < la; i++){
                a[i] = "ACGT"[(i * 7 + i / 5) % 4];
        }
        a[la] = 0;
        for(i = 0; i < lb; i++){
                b[i] = "ACGT"[(i * 7 + i / 5 + (i % 89 == 3)) % 4];
        }
        b[lb] = 0;
        kx_set_init(&in);
        kx_set_add(&in, a, "SEQ1");
        if(kind == 2){
                /* a second 70-residue sequence: the group the long one is merged with */
                memcpy(c, a, 70);
                c[70] = 0;
                c[33] = c[33] == 'A' ? 'C' : 'A';
                kx_set_add(&in, c, "SEQ2");
        }
        kx_set_add(&in, b, kind == 2 ? "SEQ3" : "SEQ2");
        if(desc){
                snprintf(desc, dn, "F: length sweep: %s of total length %d (%d + %d residues)", kind == 2 ? "70-column pair joined by a third sequence" : "pair", T, la, lb);
                kx_set_free(&in);
                return VH_OK;
        }
        vh_count("library_calls");
        rc = kx_kalign_arr(&in, 1, KALIGN_TYPE_DNA, -1.0f, -1.0f, -1.0f, &rows, &alnlen);
        if(rc != OK){
                vh_fail("sem:rejected-valid-input", "kalign() failed on %d nucleotide sequences", in.n);
        }else{
                if(kx_check_alignment(&in, in.n, rows, NULL, alnlen, why, sizeof why)){
                        char sig[64];
                        snprintf(sig, sizeof sig, "sem:invalid-alignment.%.*s", (int)(strchr(why, ':') - why), why);
                        vh_fail(sig, "kalign() returned OK but the rows are not an alignment of the input: %s", why);
                }
                kx_free_rows(rows, in.n);
                *success = 1;
        }
        kx_set_free(&in);
        return VH_OK;
}

static int array_case(uint64_t e, int* success)
{
        struct kx_set in;
        char** rows = NULL;
        int alnlen = 0, rc, hasgap;
        char why[300];
        *success = 0;
        hasgap = array_decode(e, &in, NULL, 0);
        vh_count("library_calls");
        rc = kx_kalign_arr(&in, 1, KALIGN_TYPE_UNDEFINED, -1.0f, -1.0f, -1.0f, &rows, &alnlen);
        if(rc != OK){
                vh_count("array_calls_rejected");
        }else{
                /* a '-' given as a residue cannot be told from a gap in the result: the C01 predicate is applied to the other inputs */
                if(!hasgap && kx_check_alignment(&in, in.n, rows, NULL, alnlen, why, sizeof why)){
                        char sig[64];
                        snprintf(sig, sizeof sig, "sem:invalid-alignment.%.*s", (int)(strchr(why, ':') - why), why);
                        vh_fail(sig, "kalign() returned OK but the rows are not an alignment of the byte strings given: %s", why);
                }
                kx_free_rows(rows, in.n);
                vh_count("array_calls_on_raw_bytes_succeeded");
                *success = 1;
        }
        kx_set_free(&in);
        return VH_OK;
}

static int pipeline(uint64_t id, int tier, int* success)
{
        const char* path = vh_tmp("c05.in");
        struct msa* m = NULL;
        int rc;
        *success = 0;
        if(id >= secA(tier) + secB(tier) + secE()){
                return sweep_case(id - secA(tier) - secB(tier) - secE(), success, NULL, 0);
        }
        if(id >= secA(tier) + secB(tier)){
                return array_case(id - secA(tier) - secB(tier), success);
        }
        build_input(id, tier, NULL, 0);
        vh_write_file(path, BUF, BUFN);
        if(id >= secA(tier)){
                vh_case_timeout = 60;
                alarm(60);
        }
        vh_count("library_calls");
        rc = kalign_read_input((char*)path, &m, 1);
        if(rc != OK){
                vh_count("read_rejected");
                if(m){
                        kalign_free_msa(m);
                }
                return VH_OK;
        }
        if(!m){
                vh_count("read_found_nothing");
                return VH_OK;
        }
        if(BUF2N){
                const char* path2 = vh_tmp("c05.in2");
                int before = m->numseq;
                vh_write_file(path2, BUF2, BUF2N);
                rc = kalign_read_input((char*)path2, &m, 1);
                if(rc != OK){
                        vh_fail("sem:second-file-rejected", "a second well-formed file of the same kind was refused");
                        if(m){
                                kalign_free_msa(m);
                        }
                        return VH_OK;
                }
                if(m->numseq != EXPECT_N){
                        vh_fail("sem:two-files-record-count", "%d records before the second read, %d after, the files hold %d", before, m->numseq, EXPECT_N);
                }
                vh_count("two_file_reads");
        }
        {
                /* what the reader reported */
                struct kx_set snap;
                int i;
                kx_set_init(&snap);
                for(i = 0; i < m->numseq && i < KX_MAXSEQ; i++){
                        char* s = malloc((size_t)m->sequences[i]->len + 1);
                        memcpy(s, m->sequences[i]->seq, (size_t)m->sequences[i]->len);
                        s[m->sequences[i]->len] = 0;
                        snap.seq[i] = s;
                        snap.len[i] = m->sequences[i]->len;
                        snap.name[i] = strdup(m->sequences[i]->name);
                        snap.n++;
                }
                rc = kalign_run(m, 1, KALIGN_TYPE_UNDEFINED, -1.0f, -1.0f, -1.0f);
                if(rc != OK){
                        vh_count("run_rejected");
                }else{
                        char why[300];
                        char** rows;
                        char** names;
                        int ne = 0, f;
                        for(i = 0; i < snap.n; i++){
                                ne += snap.len[i] > 0;
                        }
                        kx_msa_rows(m, &rows, &names);
                        if(kx_check_alignment(&snap, m->numseq, rows, names, m->alnlen, why, sizeof why)){
                                char sig[64];
                                snprintf(sig, sizeof sig, "sem:invalid-alignment.%.*s", (int)(strchr(why, ':') - why), why);
                                vh_fail(sig, "success reported but the alignment is not a valid alignment of the sequences read: %s", why);
                        }
                        kx_free_rows(rows, m->numseq);
                        kx_free_rows(names, m->numseq);
                        for(f = 0; f < 3; f++){
                                const char* out = vh_tmp("c05.out");
                                if(kalign_write_msa(m, (char*)out, f == 0 ? "fasta" : (f == 1 ? "msf" : "clu")) != OK){
                                        vh_fail("sem:write-failed-after-success", "alignment succeeded but writing %s failed", f == 0 ? "fasta" : (f == 1 ? "msf" : "clu"));
                                }
                        }
                        *success = 1;
                        (void)ne;
                }
                kx_set_free(&snap);
        }
        kalign_free_msa(m);
        return VH_OK;
}

#ifdef __SANITIZE_ADDRESS__
size_t __sanitizer_get_current_allocated_bytes(void);
#endif

int vh_case(uint64_t id, int tier)
{
        int ok = 0, r;
#ifdef __SANITIZE_ADDRESS__
        size_t before, after;
        if(!BUF){
                BUF = malloc(1 << 22);
        }
        before = __sanitizer_get_current_allocated_bytes();
#endif
        r = pipeline(id, tier, &ok);
        if(ok){
                vh_count("nontrivial_aligned_successfully");
        }
#ifdef __SANITIZE_ADDRESS__
        after = __sanitizer_get_current_allocated_bytes();
        if(ok && after > before && VH->fails_in_case == 0){
                /* Something is still allocated after a successful read -> run -> write -> free.  One-time allocations
                   inside libc (time zone data, stdio) are not the library's: repeat the case and report only growth. */
                size_t after2;
                int ok2 = 0;
                pipeline(id, tier, &ok2);
                after2 = __sanitizer_get_current_allocated_bytes();
                if(ok2 && after2 > after){
                        vh_fail("leak@success-path", "%zu bytes remain allocated after each successful read -> run -> write -> free of this input", after2 - after);
                }
                vh_count("leak_suspicions_rechecked");
        }
#endif
        return r;
}
