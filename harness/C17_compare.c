/* C17 - kalign_msa_compare is exact.
   A case = (sequence set, reference alignment); inside, every test alignment of the same set, with row
   permutations and all-gap columns, is compared and judged by an independent implementation of the score. */
#include "vh.h"
#include "kx.h"

const char* vh_property = "C17";

#define MAXK 4
#define MAXCOL 16
#define MAXALN 6000

struct setdef { int k; int len[MAXK]; };
static const struct setdef SQ[] = {
        {2, {1, 1}}, {2, {2, 1}}, {2, {1, 2}}, {2, {2, 2}}, {2, {3, 1}}, {2, {3, 2}}, {2, {2, 3}}, {2, {3, 3}},
        {3, {1, 1, 1}}, {3, {2, 1, 1}}, {3, {1, 2, 1}}, {3, {2, 2, 1}}, {3, {1, 1, 2}}, {3, {2, 2, 2}},
};
static const struct setdef ST[] = {
        {2, {1, 1}}, {2, {2, 1}}, {2, {2, 2}}, {2, {3, 1}}, {2, {3, 2}}, {2, {2, 3}}, {2, {3, 3}}, {2, {4, 3}}, {2, {4, 4}},
        {3, {1, 1, 1}}, {3, {2, 1, 1}}, {3, {2, 2, 1}}, {3, {1, 1, 2}}, {3, {2, 2, 2}}, {3, {3, 2, 1}}, {3, {3, 2, 2}},
        {4, {1, 1, 1, 1}}, {4, {2, 1, 1, 1}}, {4, {2, 2, 1, 1}},
};

struct aln { unsigned char ncol; unsigned char col[MAXCOL]; };   /* column = bitmask of sequences that have a residue */
static struct aln* ALN[32];
static int NALN[32];
static int NSETS;
static const struct setdef* SETS;

static void gen_rec(const struct setdef* s, int* used, struct aln* cur, struct aln* out, int* n)
{
        int k = s->k, m, i, done = 1;
        for(i = 0; i < k; i++){
                if(used[i] < s->len[i]){
                        done = 0;
                }
        }
        if(done){
                if(*n < MAXALN){
                        out[(*n)++] = *cur;
                }
                return;
        }
        if(cur->ncol >= MAXCOL - 2){
                return;
        }
        for(m = 1; m < (1 << k); m++){
                int ok = 1;
                for(i = 0; i < k; i++){
                        if((m >> i & 1) && used[i] >= s->len[i]){
                                ok = 0;
                        }
                }
                if(!ok){
                        continue;
                }
                for(i = 0; i < k; i++){
                        used[i] += (m >> i) & 1;
                }
                cur->col[cur->ncol++] = (unsigned char)m;
                gen_rec(s, used, cur, out, n);
                cur->ncol--;
                for(i = 0; i < k; i++){
                        used[i] -= (m >> i) & 1;
                }
        }
}

void vh_init(int tier)
{
        int i;
        SETS = tier ? ST : SQ;
        NSETS = tier ? (int)(sizeof ST / sizeof ST[0]) : (int)(sizeof SQ / sizeof SQ[0]);
        for(i = 0; i < NSETS; i++){
                int used[MAXK] = {0};
                struct aln cur;
                cur.ncol = 0;
                ALN[i] = malloc(sizeof(struct aln) * MAXALN);
                NALN[i] = 0;
                gen_rec(&SETS[i], used, &cur, ALN[i], &NALN[i]);
        }
}

uint64_t vh_total(int tier)
{
        uint64_t t = 0;
        int i;
        (void)tier;
        for(i = 0; i < NSETS; i++){
                t += (uint64_t)NALN[i];
        }
        return t;
}

/* residues in both cases: the second row is all lower case, the third mixed (kalign keeps the case of its input) */
static const char* LETTERS[MAXK] = {"ACGT", "catg", "GtAc", "TGCA"};
static const char* NAMES_A[MAXK] = {"alpha", "beta", "gamma", "delta"};
/* second naming: names that differ only in letter case (PDB-chain style), still pairwise distinct */
static const char* NAMES_B[MAXK] = {"1abcA", "1abca", "1ABCa", "1aBca"};
static const char** NAMES = NAMES_A;

/* rows of an alignment with `extra` all-gap columns inserted (bit 0: front, bit 1: after first column, bit 2: end) */
static void render(const struct setdef* s, const struct aln* a, int extra, char rows[MAXK][MAXCOL + 8])
{
        int i, c, o;
        for(i = 0; i < s->k; i++){
                int p = 0;
                o = 0;
                if(extra & 1){
                        rows[i][o++] = '-';
                }
                for(c = 0; c < a->ncol; c++){
                        rows[i][o++] = (a->col[c] >> i & 1) ? LETTERS[i][p++ % 4] : '-';
                        if(c == 0 && (extra & 2)){
                                rows[i][o++] = '-';
                        }
                }
                if(extra & 4){
                        rows[i][o++] = '-';
                }
                rows[i][o] = 0;
        }
}

/* the score definition, independently: 100 * reproduced / total over ordered pairs (i,j) and residues p of i of the
   relation partner-or-gap */
static double oracle_score(const struct setdef* s, const struct aln* r, const struct aln* t)
{
        int colr[MAXK][8], colt[MAXK][8];       /* column of residue p of sequence i */
        int i, j, p, c, q;
        long total = 0, same = 0;
        for(i = 0; i < s->k; i++){
                q = 0;
                for(c = 0; c < r->ncol; c++){
                        if(r->col[c] >> i & 1){
                                colr[i][q++] = c;
                        }
                }
                q = 0;
                for(c = 0; c < t->ncol; c++){
                        if(t->col[c] >> i & 1){
                                colt[i][q++] = c;
                        }
                }
        }
        for(i = 0; i < s->k; i++){
                for(j = 0; j < s->k; j++){
                        if(i == j){
                                continue;
                        }
                        for(p = 0; p < s->len[i]; p++){
                                int pr = -1, pt = -1;
                                for(q = 0; q < s->len[j]; q++){
                                        if(colr[j][q] == colr[i][p]){
                                                pr = q;
                                        }
                                        if(colt[j][q] == colt[i][p]){
                                                pt = q;
                                        }
                                }
                                total++;
                                if(pr == pt){
                                        same++;
                                }
                        }
                }
        }
        return 100.0 * (double)same / (double)total;
}

static int has_gap(const struct setdef* s, const struct aln* a, int extra)
{
        int c;
        if(extra){
                return 1;
        }
        for(c = 0; c < a->ncol; c++){
                if(a->col[c] != (1 << s->k) - 1){
                        return 1;
                }
        }
        return 0;
}

static const int PERMS[24][4] = {
        {0,1,2,3},{1,0,2,3},{2,1,0,3},{0,2,1,3},{1,2,0,3},{2,0,1,3},{3,1,2,0},{0,3,2,1},{0,1,3,2},{1,0,3,2},{3,2,1,0},{2,3,0,1},
        {1,2,3,0},{3,0,1,2},{2,0,3,1},{1,3,0,2},{3,1,0,2},{2,1,3,0},{0,2,3,1},{0,3,1,2},{3,0,2,1},{1,3,2,0},{2,3,1,0},{3,2,0,1}};

static int perm_valid(const int* p, int k)
{
        int i;
        for(i = 0; i < k; i++){
                if(p[i] >= k){
                        return 0;
                }
        }
        return 1;
}

static struct msa* load(const struct setdef* s, const struct aln* a, int extra, const int* perm, int fmt, const char* leaf)
{
        char rows[MAXK][MAXCOL + 8];
        char txt[2048];
        size_t o = 0;
        int i;
        struct msa* m = NULL;
        const char* path = vh_tmp(leaf);
        render(s, a, extra, rows);
        if(fmt == 0){
                for(i = 0; i < s->k; i++){
                        o += (size_t)snprintf(txt + o, sizeof txt - o, ">%s\n%s\n", NAMES[perm[i]], rows[perm[i]]);
                }
        }else if(fmt == 1){
                o += (size_t)snprintf(txt + o, sizeof txt - o, "CLUSTAL W (1.83) multiple sequence alignment\n\n");
                for(i = 0; i < s->k; i++){
                        o += (size_t)snprintf(txt + o, sizeof txt - o, "%-10s%s\n", NAMES[perm[i]], rows[perm[i]]);
                }
        }else{
                o += (size_t)snprintf(txt + o, sizeof txt - o, "!!NA_MULTIPLE_ALIGNMENT 1.0\n\n x.msf  MSF: %d  Type: N  Check: 0  ..\n\n", (int)strlen(rows[0]));
                for(i = 0; i < s->k; i++){
                        o += (size_t)snprintf(txt + o, sizeof txt - o, " Name: %-10s Len: %d  Check: 0  Weight: 1.00\n", NAMES[perm[i]], (int)strlen(rows[0]));
                }
                o += (size_t)snprintf(txt + o, sizeof txt - o, "\n//\n\n");
                for(i = 0; i < s->k; i++){
                        char dots[MAXCOL + 8];
                        int j;
                        for(j = 0; rows[perm[i]][j]; j++){
                                dots[j] = rows[perm[i]][j] == '-' ? '.' : rows[perm[i]][j];
                        }
                        dots[j] = 0;
                        o += (size_t)snprintf(txt + o, sizeof txt - o, "%-10s%s\n", NAMES[perm[i]], dots);
                }
        }
        vh_write_file(path, txt, o);
        if(kalign_read_input((char*)path, &m, 1) != OK){
                return NULL;
        }
        return m;
}

void vh_describe(uint64_t id, int tier, char* buf, size_t n)
{
        int i;
        (void)tier;
        for(i = 0; i < NSETS; i++){
                if(id < (uint64_t)NALN[i]){
                        char rows[MAXK][MAXCOL + 8];
                        size_t o;
                        int j;
                        render(&SETS[i], &ALN[i][id], 0, rows);
                        o = (size_t)snprintf(buf, n, "set %d (%d sequences, %d alignments): reference", i, SETS[i].k, NALN[i]);
                        for(j = 0; j < SETS[i].k; j++){
                                o += (size_t)snprintf(buf + o, n - o, " %s", rows[j]);
                        }
                        snprintf(buf + o, n - o, " vs every alignment of the set x row orders x all-gap columns x formats");
                        return;
                }
                id -= (uint64_t)NALN[i];
        }
}

int vh_case(uint64_t id, int tier)
{
        int si, ti, variant = 0;
        const struct setdef* s;
        const struct aln* r;
        (void)tier;
        for(si = 0; si < NSETS; si++){
                if(id < (uint64_t)NALN[si]){
                        break;
                }
                id -= (uint64_t)NALN[si];
        }
        s = &SETS[si];
        r = &ALN[si][id];
        NAMES = (id % 2) ? NAMES_B : NAMES_A;
        for(ti = 0; ti < NALN[si]; ti++){
                const struct aln* t = &ALN[si][ti];
                /* a different (row order, all-gap columns, format) variant per pair, cycling through all of them;
                   the identical pair (ti == id) gets every row order */
                int reps = (ti == (int)id) ? 24 : 1, rep;
                for(rep = 0; rep < reps; rep++, variant++){
                        int valid[24], nv = 0, q;
                        int pr, pt;
                        for(q = 0; q < 24; q++){
                                if(perm_valid(PERMS[q], s->k)){
                                        valid[nv++] = q;
                                }
                        }
                        pr = valid[variant % nv];
                        pt = valid[(variant / 3 + rep) % nv];
                        int er = (variant / 5) % 8, et = (variant / 7) % 8;
                        int fr = variant % 3, ft = (variant / 2) % 3;
                        struct msa* mr;
                        struct msa* mt;
                        float score = -1.0f;
                        double want;
                        /* premise: a file must contain at least one gap character to be recognised as an alignment */
                        if(!has_gap(s, r, er)){
                                er |= 4;
                        }
                        if(!has_gap(s, t, et)){
                                et |= 1;
                        }
                        mr = load(s, r, er, PERMS[pr], fr, "ref.aln");
                        mt = load(s, t, et, PERMS[pt], ft, "test.aln");
                        vh_count("library_calls");
                        if(!mr || !mt){
                                vh_fail("sem:alignment-not-read", "an aligned file was not read");
                        }else if(kalign_msa_compare(mr, mt, &score) != OK){
                                vh_fail("sem:compare-failed", "kalign_msa_compare failed on two alignments of the same named sequences");
                        }else{
                                want = oracle_score(s, r, t);
                                if(!(score >= -1e-4f && score <= 100.0001f)){
                                        vh_fail("sem:score-out-of-range", "score %g", (double)score);
                                }else if(fabs((double)score - want) > 1e-4 * (want > 1 ? want : 1)){
                                        char rr[MAXK][MAXCOL + 8], tt[MAXK][MAXCOL + 8];
                                        render(s, r, er, rr);
                                        render(s, t, et, tt);
                                        vh_fail(ti == (int)id ? "sem:identical-not-100" : "sem:score-differs",
                                                "score %g, definition gives %g; reference rows %s %s %s (order %d, fmt %d), test rows %s %s %s (order %d, fmt %d)",
                                                (double)score, want, rr[0], rr[1], s->k > 2 ? rr[2] : "", pr, fr, tt[0], tt[1], s->k > 2 ? tt[2] : "", pt, ft);
                                }else if(want > 0.0 && want < 100.0){
                                        vh_count("nontrivial_score_strictly_between");
                                }
                        }
                        if(mr){
                                kalign_free_msa(mr);
                        }
                        if(mt){
                                kalign_free_msa(mt);
                        }
                        if(VH->fails_in_case){
                                return VH_OK;
                        }
                }
        }
        /* an alignment produced by a run in the same process, as reference and as test, against this file alignment */
        {
                struct kx_set in;
                struct msa* m;
                struct msa* mt;
                int i, p, c;
                char seq[MAXK][8];
                float score = -1.0f;
                kx_set_init(&in);
                for(i = 0; i < s->k; i++){
                        for(p = 0; p < s->len[i]; p++){
                                seq[i][p] = LETTERS[i][p % 4];
                        }
                        seq[i][p] = 0;
                        kx_set_add(&in, seq[i], NAMES[i]);
                }
                m = kx_make_msa(&in);
                if(kalign_run(m, 1, KALIGN_TYPE_DNA, -1, -1, -1) == OK){
                        /* reconstruct the produced alignment as column masks */
                        struct aln prod;
                        int alen = m->alnlen;
                        prod.ncol = 0;
                        for(c = 0; c < alen && prod.ncol < MAXCOL; c++){
                                unsigned char mask = 0;
                                for(i = 0; i < s->k; i++){
                                        if(m->sequences[i]->seq[c] != '-'){
                                                mask |= (unsigned char)(1 << i);
                                        }
                                }
                                prod.col[prod.ncol++] = mask;
                        }
                        mt = load(s, r, has_gap(s, r, 0) ? 0 : 4, PERMS[0], 0, "test.aln");
                        vh_count("library_calls");
                        if(mt && kalign_msa_compare(m, mt, &score) == OK){
                                double want = oracle_score(s, &prod, r);
                                if(fabs((double)score - want) > 1e-4 * (want > 1 ? want : 1)){
                                        vh_fail("sem:score-differs-run-produced", "run-produced reference: score %g, definition gives %g", (double)score, want);
                                }
                                vh_count("run_produced_alignments_compared");
                        }else{
                                vh_fail("sem:compare-failed", "kalign_msa_compare failed with a run-produced reference");
                        }
                        if(mt){
                                kalign_free_msa(mt);
                        }
                }
                kalign_free_msa(m);
                kx_set_free(&in);
        }
        return VH_OK;
}
