/* C16 - a library call's result does not depend on the calls made before it.
   Explicit-state breadth-first search over API-call histories, executed on the real library.
   A state is the history that reaches it (objects are not copyable): every history is replayed in a fresh
   process (forked from a process that has never called the library).  Oracle: the result of the last call
   of history h equals the result of the last call of the object-local projection of h (the calls that touch,
   transitively, the objects the last call touches), itself run in a fresh process; and after freeing all
   objects no allocation made by the library remains (LeakSanitizer, recoverable check). */
#include "vh.h"
#include "kx.h"
#include "sched_inputs.h"
#include <sys/mman.h>
#include <sys/wait.h>

const char* vh_property = "C16";

#ifndef C16_THREADS_ALT
#define C16_THREADS_ALT 1       /* second thread count used by some configurations (4 in the libgomp leg) */
#endif

/* ---- the operation alphabet ---- */
enum { OP_K, OP_R, OP_A, OP_W, OP_C, OP_F };
struct op { int kind; int s, t; int arg; const char* name; };
static struct op OPS[64];
static int NOPS;
static int NFILES = 5, NKIN = 3;
static char FILES[5][400];
static struct kx_set FILESET[5];        /* names and ungapped residues of each input file, by the independent parsers */

static void add_op(int kind, int s, int t, int arg, const char* fmt, ...)
{
        char* nm = malloc(64);
        va_list ap;
        va_start(ap, fmt);
        vsnprintf(nm, 64, fmt, ap);
        va_end(ap);
        OPS[NOPS].kind = kind;
        OPS[NOPS].s = s;
        OPS[NOPS].t = t;
        OPS[NOPS].arg = arg;
        OPS[NOPS].name = nm;
        NOPS++;
}

static int with_big;
static void build_directed(void);

static void build_alphabet(int tier)
{
        int s, f, k;
        with_big = 1;
        NOPS = 0;
        for(k = 0; k < NKIN; k++){
                add_op(OP_K, -1, -1, k * 2, "K(in%d,cfg0)", k);
                add_op(OP_K, -1, -1, k * 2 + 1, "K(in%d,cfg1)", k);
        }
        for(s = 0; s < 2; s++){
                for(f = 0; f < NFILES; f++){
                        add_op(OP_R, s, -1, f, "R(%c,file%d)", 'x' + s, f);
                }
                for(k = 0; k < 3; k++){
                        add_op(OP_A, s, -1, k, "A(%c,cfg%d)", 'x' + s, k);
                }
                for(k = 0; k < 3; k++){
                        add_op(OP_W, s, -1, k, "W(%c,%s)", 'x' + s, k == 0 ? "fasta" : (k == 1 ? "msf" : "clu"));
                }
                add_op(OP_F, s, -1, 0, "F(%c)", 'x' + s);
        }
        add_op(OP_C, 0, 1, 0, "C(x,y)");
        add_op(OP_C, 1, 0, 0, "C(y,x)");
        build_directed();
        (void)tier;
}

static int depth(int tier) { return tier ? 4 : 3; }

/* directed block: every history of exactly DDEPTH calls on the single object x over the sub-alphabet
   {R(x,file0), R(x,file1), R(x,file2), R(x,file4), A(x,cfg0..2), W(x,fasta)} - one level deeper than the full search
   (read - align - read - align and the like); judged by the validity / leak / crash oracles and, via the full-alphabet
   histories, by the projection oracle */
#define NDIR 8
static int DIR[NDIR];
static int ddepth(int tier) { return tier ? 5 : 4; }

static void build_directed(void)
{
        int i, k = 0;
        for(i = 0; i < NOPS; i++){
                const struct op* o = &OPS[i];
                if(o->s != 0 || o->t >= 0){
                        continue;
                }
                if((o->kind == OP_R && o->arg != 3) || o->kind == OP_A || (o->kind == OP_W && o->arg == 0)){
                        if(k < NDIR){
                                DIR[k++] = i;
                        }
                }
        }
}

static uint64_t bfs_total(int tier)
{
        uint64_t t = 0, p = 1;
        int d;
        for(d = 1; d <= depth(tier); d++){
                p *= (uint64_t)NOPS;
                t += p;
        }
        return t;
}

static uint64_t dir_total(int tier)
{
        uint64_t p = 1;
        int d;
        for(d = 0; d < ddepth(tier); d++){
                p *= NDIR;
        }
        return p;
}

uint64_t vh_total(int tier) { return bfs_total(tier) + dir_total(tier); }

static int decode(uint64_t id, int tier, int* h)
{
        uint64_t p = 1;
        int d, i;
        for(d = 1; d <= depth(tier); d++){
                p *= (uint64_t)NOPS;
                if(id < p){
                        for(i = d - 1; i >= 0; i--){
                                h[i] = (int)(id % (uint64_t)NOPS);
                                id /= (uint64_t)NOPS;
                        }
                        return d;
                }
                id -= p;
        }
        if(id < dir_total(tier)){
                d = ddepth(tier);
                for(i = d - 1; i >= 0; i--){
                        h[i] = DIR[id % NDIR];
                        id /= NDIR;
                }
                return d;
        }
        return 0;
}

/* is the history executable (no op on an empty slot)?  In thorough depth-4 histories the 100-sequence inputs are left out. */
static int enabled(const int* h, int n, int tier)
{
        int live[2] = {0, 0}, i;
        for(i = 0; i < n; i++){
                const struct op* o = &OPS[h[i]];
                if(tier && n == 4 && ((o->kind == OP_K && o->arg / 2 == 2) || (o->kind == OP_R && o->arg == 3))){
                        return 0;
                }
                switch(o->kind){
                case OP_R: live[o->s] = 1; break;
                case OP_A: case OP_W: if(!live[o->s]){ return 0; } break;
                case OP_F: if(!live[o->s]){ return 0; } live[o->s] = 0; break;
                case OP_C: if(!live[0] || !live[1]){ return 0; } break;
                default: break;
                }
        }
        return 1;
}

static void hist_str(const int* h, int n, char* buf, size_t sz)
{
        size_t o = 0;
        int i;
        buf[0] = 0;
        for(i = 0; i < n && o + 20 < sz; i++){
                o += (size_t)snprintf(buf + o, sz - o, "%s%s", i ? " ; " : "", OPS[h[i]].name);
        }
}

void vh_describe(uint64_t id, int tier, char* buf, size_t n)
{
        int h[8], d;
        d = decode(id, tier, h);
        hist_str(h, d, buf, n);
}

/* ---- inputs ---- */
void vh_init(int tier)
{
        struct kx_set s;
        char* txt;
        int i;
        build_alphabet(tier);
        for(i = 0; i < NFILES; i++){
                snprintf(FILES[i], sizeof FILES[i], "%s/file%d.in", vh_tmpdir, i);
        }
        {
                const char* fa = ">d1\nACGTTGCA\n>d2\nACGTGCA\n>d3\nTTGACGT\n";
                vh_write_file(FILES[0], fa, strlen(fa));
        }
        {
                const char* clu = "CLUSTAL W (1.83) multiple sequence alignment\n\np1        LKWDEL-KW\np2        LKW-ELGKW\np3        -KWDEL-KW\n\n";
                vh_write_file(FILES[1], clu, strlen(clu));
        }
        {
                const char* afa = ">q1\nAC-GTAC\n>q2\nACGGT-C\n";
                vh_write_file(FILES[2], afa, strlen(afa));
        }
        {
                /* more empty records than sequences: the removal of empty records and the per-node bookkeeping must stay in step */
                const char* emp = ">e1\nACGTTGCA\n>empty1\n>empty2\n\n>e2\nACGTGCA\n>empty3\n";
                vh_write_file(FILES[4], emp, strlen(emp));
        }
        sinput_build(sinput_get(11), &s);
        txt = kx_fasta_text(&s, 0);
        vh_write_file(FILES[3], txt, strlen(txt));
        free(txt);
        kx_set_free(&s);
        for(i = 0; i < NFILES; i++){
                size_t n = 0;
                char* data = vh_read_file(FILES[i], &n);
                struct fp_aln a;
                int k;
                kx_set_init(&FILESET[i]);
                if(i == 1){
                        fp_parse_clustal(data, &a);
                }else{
                        fp_parse_fasta(data, &a);
                }
                for(k = 0; k < a.n; k++){
                        char* u = malloc(strlen(a.row[k]) + 1);
                        int o = 0;
                        const char* c;
                        for(c = a.row[k]; *c; c++){
                                if(*c != '-' && *c != '.'){
                                        u[o++] = *c;
                                }
                        }
                        u[o] = 0;
                        kx_set_add(&FILESET[i], u, a.name[k]);
                        free(u);
                }
                fp_free(&a);
                free(data);
        }
}

/* ---- executing a history in a fresh process ---- */
struct hres { uint64_t r[8]; int failed[8]; int n; int leak; int done; char invalid[400]; };
static struct hres* SHR;

static uint64_t hash_bytes(const void* p, size_t n, uint64_t h)
{
        return vh_fnv(p, n, h);
}

static uint64_t hash_file_masked(const char* path)
{
        size_t n = 0;
        char* d = vh_read_file(path, &n);
        uint64_t h;
        char* m;
        if(!d){
                return 7;
        }
        /* the MSF header carries the date and the output file's base name: mask the line up to "Check:" */
        m = strstr(d, " MSF: ");
        if(m){
                char* type = strstr(m, "Type: ");
                char* chk = type ? strstr(type, "Check:") : NULL;
                if(type && chk){
                        memset(type + 8, ' ', (size_t)(chk - type - 8));
                }
        }
        h = hash_bytes(d, n, 0);
        free(d);
        return h;
}

static void exec_history(const int* h, int n)
{
        struct msa* slot[2] = {NULL, NULL};
        static struct kx_set expect[2];
        int i, j;
        expect[0].n = 0;
        expect[1].n = 0;
        static const int TYPE3[3] = {KALIGN_TYPE_UNDEFINED, KALIGN_TYPE_DNA_INTERNAL, KALIGN_TYPE_PROTEIN_DIVERGENT};
        for(i = 0; i < n; i++){
                const struct op* o = &OPS[h[i]];
                uint64_t r = 1469598103934665603ULL;
                int rc = OK;
                switch(o->kind){
                case OP_K: {
                        struct kx_set in;
                        char** rows = NULL;
                        int alen = 0, in_id = o->arg / 2, cfg = o->arg % 2;
                        kx_set_init(&in);
                        if(in_id == 0){
                                kx_set_add(&in, "ACGTAC", "a");
                                kx_set_add(&in, "ACTTAC", "b");
                                kx_set_add(&in, "ACGAC", "c");
                                kx_set_add(&in, "TTGTAC", "d");
                        }else if(in_id == 1){
                                kx_set_add(&in, "LKWDELKW", "a");
                                kx_set_add(&in, "LKWELGKW", "b");
                                kx_set_add(&in, "KWDELKWW", "c");
                        }else{
                                sinput_build(sinput_get(12), &in);
                        }
                        rc = kx_kalign_arr(&in, cfg ? C16_THREADS_ALT : 1, KALIGN_TYPE_UNDEFINED, cfg ? 3.0f : -1.0f, cfg ? 1.0f : -1.0f, cfg ? 0.5f : -1.0f, &rows, &alen);
                        r = hash_bytes(&rc, sizeof rc, r);
                        if(rc == OK){
                                for(j = 0; j < in.n; j++){
                                        r = hash_bytes(rows[j], strlen(rows[j]) + 1, r);
                                }
                                kx_free_rows(rows, in.n);
                        }
                        kx_set_free(&in);
                        break;
                }
                case OP_R:
                        rc = kalign_read_input(FILES[o->arg], &slot[o->s], 1);
                        r = hash_bytes(&rc, sizeof rc, r);
                        if(rc == OK){
                                int q;
                                for(q = 0; q < FILESET[o->arg].n && expect[o->s].n < KX_MAXSEQ; q++){
                                        int e = expect[o->s].n++;
                                        expect[o->s].seq[e] = FILESET[o->arg].seq[q];
                                        expect[o->s].len[e] = FILESET[o->arg].len[q];
                                        expect[o->s].name[e] = FILESET[o->arg].name[q];
                                }
                        }
                        if(slot[o->s]){
                                struct msa* m = slot[o->s];
                                r = hash_bytes(&m->numseq, sizeof(int), r);
                                r = hash_bytes(&m->biotype, 1, r);
                                r = hash_bytes(&m->aligned, sizeof(int), r);
                                for(j = 0; j < m->numseq; j++){
                                        r = hash_bytes(m->sequences[j]->name, strlen(m->sequences[j]->name), r);
                                        r = hash_bytes(m->sequences[j]->seq, (size_t)m->sequences[j]->len, r);
                                }
                        }
                        break;
                case OP_A: {
                        struct msa* m = slot[o->s];
                        rc = kalign_run(m, o->arg == 1 ? C16_THREADS_ALT : 1, TYPE3[o->arg], o->arg == 1 ? 4.0f : -1.0f, -1.0f, -1.0f);
                        r = hash_bytes(&rc, sizeof rc, r);
                        if(rc == OK){
                                char why[300];
                                char** rows;
                                char** names;
                                for(j = 0; j < m->numseq; j++){
                                        r = hash_bytes(m->sequences[j]->seq, strlen(m->sequences[j]->seq) + 1, r);
                                }
                                /* whatever came before: a successful run must return a valid alignment of what was read into the object */
                                kx_msa_rows(m, &rows, &names);
                                if(kx_check_alignment(&expect[o->s], m->numseq, rows, names, m->alnlen, why, sizeof why)){
                                        snprintf((char*)SHR->invalid, sizeof SHR->invalid, "call %d (%s): %s", i + 1, o->name, why);
                                }
                                kx_free_rows(rows, m->numseq);
                                kx_free_rows(names, m->numseq);
                        }
                        break;
                }
                case OP_W: {
                        const char* out = vh_tmp("h.out");
                        unlink(out);
                        rc = kalign_write_msa(slot[o->s], (char*)out, o->arg == 0 ? "fasta" : (o->arg == 1 ? "msf" : "clu"));
                        r = hash_bytes(&rc, sizeof rc, r);
                        if(rc == OK){
                                uint64_t fh = hash_file_masked(out);
                                r = hash_bytes(&fh, sizeof fh, r);
                        }
                        break;
                }
                case OP_C: {
                        float score = -1.0f;
                        rc = kalign_msa_compare(slot[o->s], slot[o->t], &score);
                        r = hash_bytes(&rc, sizeof rc, r);
                        if(rc == OK){
                                int q = (int)(score * 1000.0f);
                                r = hash_bytes(&q, sizeof q, r);
                        }
                        break;
                }
                case OP_F:
                        kalign_free_msa(slot[o->s]);
                        slot[o->s] = NULL;
                        expect[o->s].n = 0;
                        break;
                }
                SHR->r[i] = r;
                SHR->failed[i] = (o->kind != OP_F && rc != OK);
                SHR->n = i + 1;
        }
        for(i = 0; i < 2; i++){
                if(slot[i]){
                        kalign_free_msa(slot[i]);
                }
        }
}

/* returns 0 ok, else termination description in how */
static int run_fresh(const int* h, int n, struct hres* out, char* how, size_t hown, int leakcheck)
{
        pid_t pid;
        int st;
        memset(SHR, 0, sizeof *SHR);
        fflush(NULL);
        pid = fork();
        if(pid == 0){
                alarm(60);
                exec_history(h, n);
#ifdef __SANITIZE_ADDRESS__
                if(leakcheck){
                        SHR->leak = __lsan_do_recoverable_leak_check();
                }
#else
                (void)leakcheck;
#endif
                SHR->done = 1;
                _exit(0);
        }
        while(waitpid(pid, &st, 0) < 0 && errno == EINTR){
        }
        *out = *SHR;
        if(WIFEXITED(st) && WEXITSTATUS(st) == 0 && SHR->done){
                return 0;
        }
        if(WIFSIGNALED(st)){
                snprintf(how, hown, "signal %d", WTERMSIG(st));
        }else{
                snprintf(how, hown, "exit %d", WEXITSTATUS(st));
        }
        return 1;
}

/* projection cache (per worker) */
#define PCACHE 8192
static struct { uint64_t key; uint64_t val; int used; } PC[PCACHE];

static uint64_t hist_key(const int* h, int n)
{
        uint64_t k = 1469598103934665603ULL;
        int i;
        for(i = 0; i < n; i++){
                k = (k ^ (uint64_t)(h[i] + 1)) * 1099511628211ULL;
        }
        return k ? k : 1;
}

int vh_case(uint64_t id, int tier)
{
        int h[8], p[8], n, np = 0, i;
        struct hres res, pres;
        char how[64];
        int slots = 0;
        const struct op* last;
        n = decode(id, tier, h);
        if(!n || !enabled(h, n, tier)){
                return VH_SKIP;
        }
        if(!SHR){
                SHR = mmap(NULL, sizeof *SHR, PROT_READ | PROT_WRITE, MAP_SHARED | MAP_ANONYMOUS, -1, 0);
        }
        vh_add("library_calls", (uint64_t)n);
        if(run_fresh(h, n, &res, how, sizeof how, 1)){
                /* die here so that the driver attributes the sanitizer report of the child to this history */
                char hs[400];
                hist_str(h, n, hs, sizeof hs);
                fprintf(stderr, "history process terminated abnormally (%s) after %d of %d calls: %s\n", how, res.n, n, hs);
                _exit(66);
        }
        if(res.invalid[0]){
                vh_fail("sem:invalid-alignment-in-history", "kalign_run returned OK with an alignment that is not a valid alignment of the sequences read into the object: %s", res.invalid);
        }
        if(res.leak){
                vh_fail("leak", "after the history and freeing all objects, allocations made by the library remain (LeakSanitizer)");
        }
        /* object-local projection of the history for its last call */
        last = &OPS[h[n - 1]];
        if(last->s >= 0){
                slots |= 1 << last->s;
        }
        if(last->t >= 0){
                slots |= 1 << last->t;
        }
        {
                int keep[8] = {0};
                keep[n - 1] = 1;
                for(i = n - 2; i >= 0; i--){
                        const struct op* o = &OPS[h[i]];
                        int os = (o->s >= 0 ? 1 << o->s : 0) | (o->t >= 0 ? 1 << o->t : 0);
                        if(os & slots){
                                keep[i] = 1;
                                slots |= os;
                        }
                }
                for(i = 0; i < n; i++){
                        if(keep[i]){
                                p[np++] = h[i];
                        }
                }
        }
        /* erasure of refused reads: a kalign_read_input that returned FAIL has added nothing to the object, so the last call must
           give the same result when the refused reads before it are left out (fresh process).  Not demanded of a failed kalign_run:
           it may fail after it has begun to take the object apart (e.g. the gaps of an alignment that was read are gone). */
        {
                int e[8], ne = 0, dropped = 0;
                for(i = 0; i < n; i++){
                        if(i < n - 1 && res.failed[i] && OPS[h[i]].kind == OP_R){
                                dropped++;
                        }else{
                                e[ne++] = h[i];
                        }
                }
                if(dropped && enabled(e, ne, tier)){
                        struct hres eres;
                        if(run_fresh(e, ne, &eres, how, sizeof how, 0) == 0){
                                vh_add("library_calls", (uint64_t)ne);
                                if(eres.r[ne - 1] != res.r[n - 1]){
                                        char es[300];
                                        hist_str(e, ne, es, sizeof es);
                                        vh_fail("sem:refused-read-leaves-trace", "the last call gives a different result than in the history without the %d refused read(s) before it (%s)", dropped, es);
                                }
                                vh_count("nontrivial_histories_with_refused_reads_erased");
                        }
                }
        }
        if(np < n){
                uint64_t key = hist_key(p, np), want = 0;
                int slot = (int)(key % PCACHE), found = 0, k;
                for(k = 0; k < 16; k++){
                        int q = (slot + k) % PCACHE;
                        if(PC[q].used && PC[q].key == key){
                                want = PC[q].val;
                                found = 1;
                                break;
                        }
                }
                if(!found){
                        if(run_fresh(p, np, &pres, how, sizeof how, 0)){
                                return VH_OK;   /* the projected history is itself enumerated and judged on its own */
                        }
                        want = pres.r[np - 1];
                        for(k = 0; k < 16; k++){
                                int q = (slot + k) % PCACHE;
                                if(!PC[q].used){
                                        PC[q].used = 1;
                                        PC[q].key = key;
                                        PC[q].val = want;
                                        break;
                                }
                        }
                        vh_add("library_calls", (uint64_t)np);
                }
                if(res.r[n - 1] != want){
                        char ps[300];
                        hist_str(p, np, ps, sizeof ps);
                        vh_fail("sem:history-dependent", "the last call gives a different result than after only the calls on its own objects (%s) in a fresh process", ps);
                }
                vh_count("nontrivial_histories_with_unrelated_prefix");
        }
        return VH_OK;
}
