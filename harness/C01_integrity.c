/* C01 - alignment integrity.  Bounded-exhaustive enumeration of sequence tuples x configurations,
   through both entry points and all output formats; oracle = kx_check_alignment + independent parsers. */
#include "vh.h"
#include "kx.h"
#include "shapes.h"

const char* vh_property = "C01";

#ifndef C01_THREADS
#define C01_THREADS 0
#endif
/* thread count of a case: 1 on the OpenMP-free leg; on the libgomp leg 2, 3 or 8 depending on the case id */
static int threads_of(uint64_t id)
{
        static const int T[3] = {2, 3, 8};
        return C01_THREADS ? T[id % 3] : 1;
}

struct family { const char* alpha; int k; int L; int protein; };

static const struct family FAM_QUICK[] = {
        {"AC", 2, 5, 0}, {"AC", 3, 3, 0}, {"AC", 4, 2, 0},
        {"LK", 2, 4, 1}, {"LK", 3, 2, 1}, {"LK", 4, 1, 1},
};
static const struct family FAM_THOROUGH[] = {
        {"AC", 2, 7, 0}, {"ACG", 2, 5, 0}, {"AC", 3, 4, 0}, {"ACG", 3, 3, 0}, {"AC", 4, 3, 0}, {"AC", 5, 2, 0},
        {"LK", 2, 6, 1}, {"LKW", 2, 4, 1}, {"LK", 3, 3, 1}, {"LK", 4, 2, 1},
};

static const int DNA_TYPES[] = {KALIGN_TYPE_DNA, KALIGN_TYPE_DNA_INTERNAL, KALIGN_TYPE_RNA, KALIGN_TYPE_UNDEFINED};
static const int PROT_TYPES[] = {KALIGN_TYPE_PROTEIN, KALIGN_TYPE_PROTEIN_DIVERGENT, KALIGN_TYPE_UNDEFINED};
static const float PRESET[3][3] = {{-1, -1, -1}, {0, 0, 0}, {25, 9, 4}};
static const char* FORMATS[] = {"arr", "fasta", "msf", "clu"};

static const struct family* fams(int tier, int* n)
{
        if(tier){
                *n = (int)(sizeof FAM_THOROUGH / sizeof FAM_THOROUGH[0]);
                return FAM_THOROUGH;
        }
        *n = (int)(sizeof FAM_QUICK / sizeof FAM_QUICK[0]);
        return FAM_QUICK;
}

static uint64_t ipow(uint64_t b, int e)
{
        uint64_t r = 1;
        while(e-- > 0){
                r *= b;
        }
        return r;
}

static uint64_t fam_cfgs(const struct family* f)
{
        return (uint64_t)(f->protein ? 3 : 4) * 3 * 4;
}

static uint64_t fam_size(const struct family* f)
{
        uint64_t S = kx_count_strings((int)strlen(f->alpha), 0, f->L);
        return ipow(S, f->k) * fam_cfgs(f);
}

uint64_t vh_total(int tier)
{
        int n, i;
        const struct family* F = fams(tier, &n);
        uint64_t t = 0;
        for(i = 0; i < n; i++){
                t += fam_size(&F[i]);
        }
        return t + shapes_count(tier) * 4;
}

struct dcase {
        struct kx_set in;
        int type;
        int preset;
        int fmt;
        int shape;      /* >=0: large-shape case */
};

static void decode(uint64_t id, int tier, struct dcase* c)
{
        int n, i;
        const struct family* F = fams(tier, &n);
        char buf[64];
        kx_set_init(&c->in);
        c->shape = -1;
        for(i = 0; i < n; i++){
                uint64_t sz = fam_size(&F[i]);
                if(id < sz){
                        const struct family* f = &F[i];
                        uint64_t S = kx_count_strings((int)strlen(f->alpha), 0, f->L);
                        uint64_t cfg = id % fam_cfgs(f);
                        uint64_t tup = id / fam_cfgs(f);
                        int nt = f->protein ? 3 : 4;
                        int j;
                        int naming = (int)((tup + cfg) & 1);
                        c->type = f->protein ? PROT_TYPES[cfg % (uint64_t)nt] : DNA_TYPES[cfg % (uint64_t)nt];
                        cfg /= (uint64_t)nt;
                        c->preset = (int)(cfg % 3);
                        cfg /= 3;
                        c->fmt = (int)(cfg % 4);
                        for(j = 0; j < f->k; j++){
                                char nm[16];
                                kx_nth_string(tup % S, f->alpha, 0, f->L, buf);
                                tup /= S;
                                if(naming){
                                        snprintf(nm, sizeof nm, "%c%d", 'z' - j, j);
                                }else{
                                        snprintf(nm, sizeof nm, "s%d", j);
                                }
                                kx_set_add(&c->in, buf, nm);
                        }
                        return;
                }
                id -= sz;
        }
        c->shape = (int)(id / 4);
        c->fmt = (int)(id % 4);
        c->type = KALIGN_TYPE_UNDEFINED;
        c->preset = 0;
        shapes_build(c->shape, tier, vh_seed, &c->in);
}

void vh_describe(uint64_t id, int tier, char* buf, size_t n)
{
        struct dcase c;
        int i;
        size_t o;
        decode(id, tier, &c);
        o = (size_t)snprintf(buf, n, "type=%s gp=(%g,%g,%g) out=%s nseq=%d ", kx_type_name(c.type), PRESET[c.preset][0],
                             PRESET[c.preset][1], PRESET[c.preset][2], FORMATS[c.fmt], c.in.n);
        if(c.shape >= 0){
                o += (size_t)snprintf(buf + o, n - o, "shape=%d[%s] ", c.shape, shapes_name(c.shape, tier));
        }
        for(i = 0; i < c.in.n && i < 6 && o + 80 < n; i++){
                if(c.in.len[i] <= 40){
                        o += (size_t)snprintf(buf + o, n - o, "%s=\"%s\" ", c.in.name[i], c.in.seq[i]);
                }else{
                        o += (size_t)snprintf(buf + o, n - o, "%s=<%d residues> ", c.in.name[i], c.in.len[i]);
                }
        }
        kx_set_free(&c.in);
}

static int nonempty(const struct kx_set* s)
{
        int i, k = 0;
        for(i = 0; i < s->n; i++){
                k += s->len[i] > 0;
        }
        return k;
}

int vh_case(uint64_t id, int tier)
{
        struct dcase c;
        char why[300];
        int ne, rc, ret = VH_OK;
        const float* gp;
        decode(id, tier, &c);
        gp = PRESET[c.preset];
        ne = nonempty(&c.in);
        if(c.fmt == 0){
                char** rows = NULL;
                int alnlen = 0;
                rc = kx_kalign_arr(&c.in, threads_of(id), c.type, gp[0], gp[1], gp[2], &rows, &alnlen);
                if(ne < 2){
                        if(rc == OK){
                                vh_fail("sem:accepted-fewer-than-two", "kalign() returned OK for %d non-empty sequences", ne);
                        }
                        vh_count("rejected_fewer_than_two_sequences");
                        ret = VH_SKIP;
                }else if(rc != OK){
                        vh_fail("sem:rejected-valid-input", "kalign() failed on a valid input");
                }else{
                        if(kx_check_alignment(&c.in, ne, rows, NULL, alnlen, why, sizeof why)){
                                char sig[64];
                                snprintf(sig, sizeof sig, "sem:%.*s", (int)(strchr(why, ':') - why), why);
                                vh_fail(sig, "array API: %s", why);
                        }else{
                                if(kx_has_gap(rows, ne)){
                                        vh_count("nontrivial_alignment_has_gap");
                                }
                        }
                        kx_free_rows(rows, ne);
                }
        }else{
                struct msa* m = NULL;
                char* txt = kx_fasta_text(&c.in, 0);
                if((c.shape >= 0 || id % 7 == 3) && c.in.n >= 2){
                        /* stray punctuation that a reader ignores (C04): a '*' closing the last record, a '-' inside the one before
                           it; the residues, and with them the expected rows, are unchanged */
                        size_t cap = strlen(txt) + 8, o = 0;
                        char* t2 = malloc(cap);
                        int r;
                        for(r = 0; r < c.in.n; r++){
                                o += (size_t)sprintf(t2 + o, ">%s\n", c.in.name[r]);
                                if(r == c.in.n - 2 && c.in.len[r] > 1){
                                        o += (size_t)sprintf(t2 + o, "%c-%s\n", c.in.seq[r][0], c.in.seq[r] + 1);
                                }else if(r == c.in.n - 1 && c.in.len[r] > 0){
                                        o += (size_t)sprintf(t2 + o, "%s*\n", c.in.seq[r]);
                                }else{
                                        o += (size_t)sprintf(t2 + o, "%s\n", c.in.seq[r]);
                                }
                        }
                        free(txt);
                        txt = t2;
                        vh_count("inputs_with_stray_punctuation");
                }
                const char* inpath = vh_tmp("in.fa");
                const char* outpath = vh_tmp("out.aln");
                size_t tl = strlen(txt);
                if(id % 3 == 1 && tl > 0 && c.in.len[c.in.n - 1] > 0){
                        tl--;           /* last line without a terminating newline */
                        vh_count("inputs_without_final_newline");
                }
                vh_write_file(inpath, txt, tl);
                free(txt);
                rc = kalign_read_input((char*)inpath, &m, 1);
                if(rc == OK && m){
                        rc = kalign_run(m, threads_of(id), c.type, gp[0], gp[1], gp[2]);
                }else if(rc == OK){
                        rc = FAIL;
                }
                if(ne < 2){
                        if(rc == OK){
                                vh_fail("sem:accepted-fewer-than-two", "kalign_run returned OK for %d non-empty sequences", ne);
                        }
                        vh_count("rejected_fewer_than_two_sequences");
                        ret = VH_SKIP;
                }else if(rc != OK){
                        vh_fail("sem:rejected-valid-input", "read+run failed on a valid input");
                }else{
                        char** rows;
                        char** names;
                        /* (a) the msa object itself */
                        kx_msa_rows(m, &rows, &names);
                        if(m->numseq != ne){
                                vh_fail("sem:rowcount", "msa holds %d sequences, expected %d", m->numseq, ne);
                        }else if(kx_check_alignment(&c.in, ne, rows, names, m->alnlen, why, sizeof why)){
                                char sig[64];
                                snprintf(sig, sizeof sig, "sem:%.*s", (int)(strchr(why, ':') - why), why);
                                vh_fail(sig, "msa object: %s", why);
                        }
                        kx_free_rows(rows, m->numseq);
                        kx_free_rows(names, m->numseq);
                        /* (b) the written file, read by an independent parser */
                        unlink(outpath);
                        if(kalign_write_msa(m, (char*)outpath, (char*)FORMATS[c.fmt]) != OK){
                                vh_fail("sem:write-failed", "kalign_write_msa(%s) failed", FORMATS[c.fmt]);
                        }else{
                                size_t fl;
                                char* data = vh_read_file(outpath, &fl);
                                struct fp_aln a;
                                int pr;
                                if(!data){
                                        vh_fail("sem:write-failed", "no output file");
                                }else{
                                        if(c.fmt == 1){
                                                pr = fp_parse_fasta(data, &a);
                                        }else if(c.fmt == 2){
                                                pr = fp_parse_msf(data, &a);
                                        }else{
                                                pr = fp_parse_clustal(data, &a);
                                        }
                                        if(pr){
                                                vh_fail("sem:unparsable-output", "%s output: %s", FORMATS[c.fmt], a.err);
                                        }else{
                                                int alnlen = a.n ? (int)strlen(a.row[0]) : 0;
                                                if(kx_check_alignment(&c.in, a.n, a.row, a.name, alnlen, why, sizeof why)){
                                                        char sig[64];
                                                        snprintf(sig, sizeof sig, "sem:%.*s", (int)(strchr(why, ':') - why), why);
                                                        vh_fail(sig, "%s file: %s", FORMATS[c.fmt], why);
                                                }else if(kx_has_gap(a.row, a.n)){
                                                        vh_count("nontrivial_alignment_has_gap");
                                                }
                                                vh_count("files_parsed_independently");
                                        }
                                        fp_free(&a);
                                        free(data);
                                }
                        }
                }
                if(m){
                        kalign_free_msa(m);
                }
        }
        if(ne != c.in.n && ne >= 2){
                vh_count("cases_with_empty_records_removed");
        }
        if(c.shape >= 0){
                vh_count("large_shape_cases");
        }
        kx_set_free(&c.in);
        return ret;
}
