/* C06 - alignments survive a write/read round trip in every format; conversion loses nothing. */
#include "vh.h"
#include "kx.h"
#include "alnfam.h"

const char* vh_property = "C06";
static const char* FMT[3] = {"fasta", "clu", "msf"};

uint64_t vh_total(int tier) { return af_count(tier) * 9; }

void vh_describe(uint64_t id, int tier, char* buf, size_t n)
{
        uint64_t k = id / 9;
        (void)tier;
        snprintf(buf, n, "alignment family member %llu (%s): write %s, read, write %s, read", (unsigned long long)k,
                 k < af_count_run() ? "produced by a run" : "read from an aligned FASTA file", FMT[id % 3], FMT[(id / 3) % 3]);
}

static int same_as(const struct af_member* a, struct msa* m, const char* stage, const char* fmt)
{
        int i;
        if(m->numseq != a->n){
                vh_fail("sem:rt.row-count", "%s (%s): %d rows, expected %d", stage, fmt, m->numseq, a->n);
                return 0;
        }
        for(i = 0; i < a->n; i++){
                char* row = kx_row_from_gaps(m->sequences[i]);
                int bad = 0;
                if(strcmp(m->sequences[i]->name, a->names[i]) != 0){
                        vh_fail("sem:rt.name", "%s (%s): row %d is named \"%.80s\", expected \"%.80s\"", stage, fmt, i, m->sequences[i]->name, a->names[i]);
                        bad = 1;
                }else if(strcmp(row, a->rows[i]) != 0){
                        /* which aspect? */
                        char x[1024], y[1024];
                        int p = 0, q = 0;
                        const char* c;
                        for(c = row; *c && p < 1000; c++){
                                if(*c != '-'){
                                        x[p++] = *c;
                                }
                        }
                        x[p] = 0;
                        for(c = a->rows[i]; *c && q < 1000; c++){
                                if(*c != '-'){
                                        y[q++] = *c;
                                }
                        }
                        y[q] = 0;
                        vh_fail(strcmp(x, y) ? "sem:rt.residues" : "sem:rt.gaps", "%s (%s): row %d reads back as \"%.70s\", expected \"%.70s\"", stage, fmt, i, row, a->rows[i]);
                        bad = 1;
                }
                free(row);
                if(bad){
                        return 0;
                }
        }
        return 1;
}

int vh_case(uint64_t id, int tier)
{
        int f1 = (int)(id % 3), f2 = (int)((id / 3) % 3);
        uint64_t k = id / 9;
        struct af_member a;
        struct msa* m1 = NULL;
        struct msa* m2 = NULL;
        const char* p1 = vh_tmp("rt1.aln");
        const char* p2 = vh_tmp("rt2.aln");
        int b;
        (void)tier;
        b = af_build(k, vh_seed, vh_tmpdir, &a);
        if(b == 0){
                af_free(&a);
                return VH_SKIP;
        }
        if(b < 0){
                vh_fail("sem:aligned-file-not-read", "a legal aligned FASTA file could not be read");
                return VH_OK;
        }
        if(a.maxname > 200){
                /* the property speaks of names of 1..200 characters */
                af_free(&a);
                vh_count("names_longer_than_200_not_judged");
                return VH_SKIP;
        }
        unlink(p1);
        unlink(p2);
        vh_add("library_calls", 4);
        if(kalign_write_msa(a.m, (char*)p1, (char*)FMT[f1]) != OK){
                vh_fail("sem:rt.write-failed", "writing %s failed", FMT[f1]);
        }else if(kalign_read_input((char*)p1, &m1, 1) != OK || !m1){
                vh_fail("sem:rt.read-failed", "a %s file written by kalign cannot be read by kalign", FMT[f1]);
        }else if(same_as(&a, m1, "after write+read", FMT[f1])){
                if(kalign_write_msa(m1, (char*)p2, (char*)FMT[f2]) != OK){
                        vh_fail("sem:rt.convert-failed", "an alignment read from %s cannot be written as %s", FMT[f1], FMT[f2]);
                }else if(kalign_read_input((char*)p2, &m2, 1) != OK || !m2){
                        vh_fail("sem:rt.read-failed", "the %s file converted from %s cannot be read", FMT[f2], FMT[f1]);
                }else if(same_as(&a, m2, "after conversion", FMT[f2])){
                        if(kx_has_gap(a.rows, a.n)){
                                vh_count("nontrivial_has_gap");
                        }else{
                                vh_count("gap_free_alignments");
                        }
                        if(a.width % 60 == 0){
                                vh_count("width_multiple_of_60");
                        }
                }
        }
        if(m1){
                kalign_free_msa(m1);
        }
        if(m2){
                kalign_free_msa(m2);
        }
        af_free(&a);
        return VH_OK;
}
