/* vh: the bounded-exhaustive enumeration driver shared by the per-property harnesses.

   A harness defines
       const char* vh_property;
       uint64_t vh_total(int tier);                 number of case ids
       int vh_case(uint64_t id, int tier);          runs one case: VH_OK / VH_SKIP (premise not met); failures via vh_fail()
       void vh_describe(uint64_t id, int tier, char* buf, size_t n);   decoded case, one line
   and includes this header once (it contains main()).

   Protocol on the original stdout (one line each, parsed by engine/vp.py):
       S <counter> <value>          counters summed over shards
       X <text>                     a sample case
       F <id> <sig> <text>          a failed case (semantic: sig computed by the harness)
       C <id> <how>                 a case that killed its worker (signal/sanitizer/timeout), followed by
       | <line>                     the worker's stderr, and
       .                            end of report
   The library's own stdout/stderr chatter is sent to /dev/null (stderr of workers to a
   scratch file so sanitizer reports can be attributed to the case that was running). */
#ifndef VH_H
#define VH_H
#define _GNU_SOURCE
#include <stdio.h>
#include <stdlib.h>
#include <stdint.h>
#include <string.h>
#include <stdarg.h>
#include <unistd.h>
#include <fcntl.h>
#include <signal.h>
#include <errno.h>
#include <time.h>
#include <sys/mman.h>
#include <sys/wait.h>
#include <sys/stat.h>
#include <malloc.h>

#define VH_OK 0
#define VH_SKIP 1
#define VH_TIER_QUICK 0
#define VH_TIER_THOROUGH 1

extern const char* vh_property;
uint64_t vh_total(int tier);
int vh_case(uint64_t id, int tier);
void vh_describe(uint64_t id, int tier, char* buf, size_t n);
/* optional hooks */
void vh_init(int tier) __attribute__((weak));

#define VH_MAXCOUNTERS 96
struct vh_shared {
        volatile uint64_t cur;          /* id of the case being run */
        volatile uint64_t done_upto;    /* index in this shard's sequence */
        volatile int in_case;
        volatile int fails_in_case;
        char names[VH_MAXCOUNTERS][64];
        volatile uint64_t vals[VH_MAXCOUNTERS];
        volatile int ncounters;
        volatile uint64_t nsamples;
        volatile uint64_t nfail;
};

static struct vh_shared* VH;
static int vh_out = 1;          /* protocol fd */
static int vh_tier = 0;
static long vh_seed = 0;
static int vh_shard = 0, vh_nshards = 1;
static uint64_t vh_cur_id;
static char vh_tmpdir[256];
static int vh_max_samples = 6;
static int vh_case_timeout = 20;

static void vh_emit(const char* fmt, ...)
{
        char buf[8192];
        va_list ap;
        int n;
        va_start(ap, fmt);
        n = vsnprintf(buf, sizeof(buf) - 2, fmt, ap);
        va_end(ap);
        if(n < 0){
                return;
        }
        if(n > (int)sizeof(buf) - 2){
                n = sizeof(buf) - 2;
        }
        for(int i = 0; i < n; i++){
                if(buf[i] == '\n' || buf[i] == '\r'){
                        buf[i] = ' ';
                }
        }
        buf[n++] = '\n';
        if(write(vh_out, buf, n) < 0){
        }
}

/* named counters in shared memory (safe across worker crashes) */
static void vh_add(const char* name, uint64_t v)
{
        int i;
        for(i = 0; i < VH->ncounters; i++){
                if(strcmp(VH->names[i], name) == 0){
                        VH->vals[i] += v;
                        return;
                }
        }
        if(i < VH_MAXCOUNTERS){
                snprintf(VH->names[i], sizeof(VH->names[i]), "%s", name);
                VH->vals[i] = v;
                VH->ncounters = i + 1;
        }
}
#define vh_count(name) vh_add((name), 1)

static void vh_max(const char* name, uint64_t v)
{
        int i;
        for(i = 0; i < VH->ncounters; i++){
                if(strcmp(VH->names[i], name) == 0){
                        if(v > VH->vals[i]){
                                VH->vals[i] = v;
                        }
                        return;
                }
        }
        vh_add(name, v);
}

/* a failed case: sig is a short token (sem:<rule>), text explains */
static void vh_fail(const char* sig, const char* fmt, ...)
{
        char buf[4096];
        char d[2048];
        va_list ap;
        va_start(ap, fmt);
        vsnprintf(buf, sizeof buf, fmt, ap);
        va_end(ap);
        vh_describe(vh_cur_id, vh_tier, d, sizeof d);
        VH->nfail++;
        VH->fails_in_case++;
        if(VH->nfail <= 2000){
                vh_emit("F %llu %s %s :: case: %s", (unsigned long long)vh_cur_id, sig, buf, d);
        }
}

static void vh_sample(void)
{
        char d[2048];
        if(VH->nsamples < (uint64_t)vh_max_samples){
                VH->nsamples++;
                vh_describe(vh_cur_id, vh_tier, d, sizeof d);
                vh_emit("X id=%llu %s", (unsigned long long)vh_cur_id, d);
        }
}

/* tiny distinct-value set (64-bit hashes), per worker; merged as an upper bound by name */
static uint64_t vh_fnv(const void* p, size_t n, uint64_t h)
{
        const unsigned char* s = p;
        if(!h){
                h = 1469598103934665603ULL;
        }
        for(size_t i = 0; i < n; i++){
                h = (h ^ s[i]) * 1099511628211ULL;
        }
        return h;
}

static const char* vh_tmp(const char* leaf)
{
        static char path[4][400];
        static int k = 0;
        k = (k + 1) & 3;
        snprintf(path[k], sizeof path[k], "%s/%s", vh_tmpdir, leaf);
        return path[k];
}

static void vh_write_file(const char* path, const char* data, size_t n)
{
        int fd = open(path, O_WRONLY | O_CREAT | O_TRUNC, 0600);
        if(fd < 0){
                vh_emit("E cannot write %s: %s", path, strerror(errno));
                _exit(90);
        }
        while(n){
                ssize_t w = write(fd, data, n);
                if(w <= 0){
                        break;
                }
                data += w;
                n -= (size_t)w;
        }
        close(fd);
}

static char* vh_read_file(const char* path, size_t* n)
{
        FILE* f = fopen(path, "rb");
        char* buf;
        long sz;
        if(!f){
                return NULL;
        }
        fseek(f, 0, SEEK_END);
        sz = ftell(f);
        fseek(f, 0, SEEK_SET);
        buf = malloc((size_t)sz + 1);
        if(fread(buf, 1, (size_t)sz, f) != (size_t)sz){
        }
        buf[sz] = 0;
        fclose(f);
        if(n){
                *n = (size_t)sz;
        }
        return buf;
}

#ifdef __SANITIZE_ADDRESS__
int __lsan_do_recoverable_leak_check(void);
void __lsan_disable(void);
void __lsan_enable(void);
#endif

static int vh_leakcheck = 0;

static void vh_run_one(uint64_t id)
{
        int r;
        vh_cur_id = id;
        VH->cur = id;
        VH->fails_in_case = 0;
        VH->in_case = 1;
        alarm((unsigned)vh_case_timeout);
        r = vh_case(id, vh_tier);
        alarm(0);
        VH->in_case = 0;
        vh_count("cases");
        if(r == VH_SKIP){
                vh_count("skipped_by_premise");
        }
}

static void vh_setup_child_io(int errfd)
{
        int devnull = open("/dev/null", O_WRONLY);
        dup2(devnull, 1);
        dup2(errfd, 2);
        close(devnull);
}

static void vh_dump_report(int errfd, uint64_t id, const char* how)
{
        static char buf[262144];
        ssize_t n;
        char* line;
        char* save;
        vh_emit("C %llu %s", (unsigned long long)id, how);
        lseek(errfd, 0, SEEK_SET);
        n = read(errfd, buf, sizeof buf - 1);
        if(n > 0){
                int lines = 0;
                buf[n] = 0;
                for(line = strtok_r(buf, "\n", &save); line && lines < 60; line = strtok_r(NULL, "\n", &save)){
                        /* skip the library's own warnings */
                        if(strstr(line, "[WARNING]") || strstr(line, "[LOG]") || strstr(line, " : WARNING : ") || line[0] == 0 ||
                           (line[0] == '[' && line[1] == '2' && (strstr(line, " ERROR : ") || strstr(line, " LOG : ") || strstr(line, " MESSAGE : ")))){
                                continue;
                        }
                        vh_emit("| %s", line);
                        lines++;
                }
        }
        vh_emit(".");
}

int main(int argc, char** argv)
{
        uint64_t total, from = 0, to = 0, single = 0;
        int have_single = 0, have_to = 0;
        int batch = 2000;
        int i;
        int failed_workers = 0;
        const char* e;

        signal(SIGPIPE, SIG_IGN);
        /* keep freed heap pages mapped: the library allocates and frees ~2 MB per call, and returning
           them to the kernel each time costs more (page faults) than the alignment itself */
        mallopt(M_TRIM_THRESHOLD, 1 << 30);
        mallopt(M_TOP_PAD, 64 << 20);
        for(i = 1; i < argc; i++){
                if(!strcmp(argv[i], "--tier") && i + 1 < argc){
                        vh_tier = !strcmp(argv[++i], "thorough");
                }else if(!strcmp(argv[i], "--shard") && i + 1 < argc){
                        vh_shard = atoi(argv[++i]);
                }else if(!strcmp(argv[i], "--nshards") && i + 1 < argc){
                        vh_nshards = atoi(argv[++i]);
                }else if(!strcmp(argv[i], "--case") && i + 1 < argc){
                        single = strtoull(argv[++i], NULL, 10);
                        have_single = 1;
                }else if(!strcmp(argv[i], "--from") && i + 1 < argc){
                        from = strtoull(argv[++i], NULL, 10);
                }else if(!strcmp(argv[i], "--to") && i + 1 < argc){
                        to = strtoull(argv[++i], NULL, 10);
                        have_to = 1;
                }else if(!strcmp(argv[i], "--batch") && i + 1 < argc){
                        batch = atoi(argv[++i]);
                }else if(!strcmp(argv[i], "--leakcheck")){
                        vh_leakcheck = 1;
                }else if(!strcmp(argv[i], "--samples") && i + 1 < argc){
                        vh_max_samples = atoi(argv[++i]);
                }
        }
        e = getenv("VERIF_SEED");
        vh_seed = e ? atol(e) : 0;
        vh_out = dup(1);
        VH = mmap(NULL, sizeof(*VH), PROT_READ | PROT_WRITE, MAP_SHARED | MAP_ANONYMOUS, -1, 0);
        memset((void*)VH, 0, sizeof(*VH));
        e = getenv("VERIF_TMP");
        if(!e){
                e = (access("/dev/shm", W_OK) == 0) ? "/dev/shm" : "/var/tmp";
        }
        snprintf(vh_tmpdir, sizeof vh_tmpdir, "%s/vh-%s-%d", e, vh_property, (int)getpid());
        mkdir(vh_tmpdir, 0700);
        if(vh_init){
                vh_init(vh_tier);
        }
        total = vh_total(vh_tier);
        if(!have_to){
                to = total;
        }
        if(have_single){
                from = single;
                to = single + 1;
                vh_nshards = 1;
                vh_shard = 0;
                batch = 1;
                vh_max_samples = 1;
        }
        vh_emit("S total_cases_in_space %llu", (unsigned long long)(vh_shard == 0 ? total : 0));
        {
                /* ids handled by this shard: from + shard, + nshards, ... */
                uint64_t next = from + (uint64_t)vh_shard;
                int timeouts = 0;
                while(next < to){
                        char tmpl[300];
                        int errfd;
                        pid_t pid;
                        int st;
                        uint64_t start = next;
                        snprintf(tmpl, sizeof tmpl, "%s/stderr-XXXXXX", vh_tmpdir);
                        errfd = mkstemp(tmpl);
                        unlink(tmpl);
                        VH->in_case = 0;
                        VH->cur = start;
                        pid = fork();
                        if(pid == 0){
                                int k;
                                uint64_t id = start;
                                vh_setup_child_io(errfd);
                                for(k = 0; k < batch && id < to; k++, id += (uint64_t)vh_nshards){
                                        vh_run_one(id);
                                        {
                                                /* samples at exponentially spaced positions of this shard's sequence */
                                                uint64_t pos = (id - from) / (uint64_t)vh_nshards + 1;
                                                if(((pos & (pos - 1)) == 0 && (pos == 1 || pos >= 64)) || have_single){
                                                        if(VH->fails_in_case == 0){
                                                                vh_sample();
                                                        }
                                                }
                                        }
                                }
                                VH->cur = id;
#ifdef __SANITIZE_ADDRESS__
                                if(vh_leakcheck){
                                        if(__lsan_do_recoverable_leak_check()){
                                                _exit(77);
                                        }
                                }
#endif
                                _exit(0);
                        }
                        while(waitpid(pid, &st, 0) < 0 && errno == EINTR){
                        }
                        if(WIFEXITED(st) && WEXITSTATUS(st) == 0){
                                next = VH->cur;
                        }else if(WIFEXITED(st) && WEXITSTATUS(st) == 77 && !VH->in_case){
                                /* a leak somewhere in this batch */
                                if(batch == 1){
                                        vh_dump_report(errfd, start, "leak");
                                        vh_count("worker_deaths");
                                        next = VH->cur;
                                }else{
                                        /* re-run the batch one case per worker to attribute it */
                                        uint64_t id;
                                        uint64_t end = VH->cur;
                                        /* undo the batch's counters: simplest is to mark them as re-run */
                                        vh_add("cases_rerun_for_leak_attribution", (end - start) / (uint64_t)vh_nshards);
                                        for(id = start; id < end; id += (uint64_t)vh_nshards){
                                                int efd2;
                                                pid_t p2;
                                                snprintf(tmpl, sizeof tmpl, "%s/stderr-XXXXXX", vh_tmpdir);
                                                efd2 = mkstemp(tmpl);
                                                unlink(tmpl);
                                                p2 = fork();
                                                if(p2 == 0){
                                                        int saved = VH->ncounters;
                                                        (void)saved;
                                                        vh_setup_child_io(efd2);
                                                        vh_max_samples = 0;
                                                        vh_out = open("/dev/null", O_WRONLY);   /* failures were already reported */
                                                        vh_cur_id = id;
                                                        alarm((unsigned)vh_case_timeout);
                                                        vh_case(id, vh_tier);
                                                        alarm(0);
#ifdef __SANITIZE_ADDRESS__
                                                        if(__lsan_do_recoverable_leak_check()){
                                                                _exit(77);
                                                        }
#endif
                                                        _exit(0);
                                                }
                                                while(waitpid(p2, &st, 0) < 0 && errno == EINTR){
                                                }
                                                if(WIFEXITED(st) && WEXITSTATUS(st) == 77){
                                                        vh_dump_report(efd2, id, "leak");
                                                }
                                                close(efd2);
                                        }
                                        next = end;
                                }
                        }else{
                                char how[64];
                                uint64_t bad = VH->cur;
                                if(WIFSIGNALED(st)){
                                        if(WTERMSIG(st) == SIGALRM){
                                                snprintf(how, sizeof how, "timeout");
                                        }else{
                                                snprintf(how, sizeof how, "signal:%d", WTERMSIG(st));
                                        }
                                }else{
                                        snprintf(how, sizeof how, "exit:%d", WEXITSTATUS(st));
                                }
                                vh_dump_report(errfd, bad, how);
                                vh_count("worker_deaths");
                                vh_count("cases");
                                failed_workers++;
                                next = bad + (uint64_t)vh_nshards;
                                if(!strcmp(how, "timeout") && ++timeouts >= 2){
                                        /* two cases of this shard did not return within their limit: both are reported; the rest of the
                                           shard is left out so that the check itself ends (counted: the run is then not exhaustive) */
                                        vh_count("shards_stopped_after_two_timeouts");
                                        close(errfd);
                                        break;
                                }
                        }
                        close(errfd);
                }
        }
        for(i = 0; i < VH->ncounters; i++){
                vh_emit("S %s %llu", VH->names[i], (unsigned long long)VH->vals[i]);
        }
        {
                char cmd[400];
                snprintf(cmd, sizeof cmd, "rm -rf '%s'", vh_tmpdir);
                if(system(cmd)){
                }
        }
        return 0;
}
#endif
