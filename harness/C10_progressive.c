/* C10 - progressive merging never re-aligns a finished group (enumeration leg; the schedule leg is C02_sched.c). */
#include "vh.h"
#include "kx.h"
#include "shapes.h"
#include "sched_inputs.h"
#include "c10snap.h"

const char* vh_property = "C10";

struct fam { const char* alpha; int k; int L; int protein; };
static const struct fam FQ[] = {{"AC", 3, 4, 0}, {"ACG", 3, 3, 0}, {"AC", 4, 3, 0}, {"AC", 5, 2, 0}, {"LK", 3, 4, 1}, {"LK", 4, 2, 1}};
static const struct fam FT[] = {{"AC", 3, 5, 0}, {"ACG", 3, 4, 0}, {"AC", 4, 4, 0}, {"ACG", 4, 2, 0}, {"AC", 5, 3, 0}, {"AC", 6, 2, 0}, {"LK", 3, 5, 1}, {"LKW", 3, 3, 1}, {"LK", 4, 3, 1}, {"LK", 5, 2, 1}};
static const float PRESET[3][3] = {{-1, -1, -1}, {0, 0, 0}, {2, 1, 0.5f}};
#define NBIG0 9         /* sched inputs 11,12,13 (k-means trees) and 6 large-shape count sets */
#define NFAM2 12        /* two well-separated families: 255/256/257/511/512/513 members + 8 or 120 of the other (a node with exactly that many members) */
#define NBIG (NBIG0 + SH_NTIE + NFAM2)
#ifndef C10_THREADS
#define C10_THREADS 1
#endif

static const struct fam* fams(int tier, int* n)
{
        *n = tier ? (int)(sizeof FT / sizeof FT[0]) : (int)(sizeof FQ / sizeof FQ[0]);
        return tier ? FT : FQ;
}
static uint64_t ipow(uint64_t b, int e) { uint64_t r = 1; while(e-- > 0){ r *= b; } return r; }
static uint64_t fsize(const struct fam* f) { return ipow(kx_count_strings((int)strlen(f->alpha), 1, f->L), f->k) * 3; }

uint64_t vh_total(int tier)
{
        int n, i;
        const struct fam* F = fams(tier, &n);
        uint64_t t = 0;
        if(C10_THREADS > 1){
                return NBIG;    /* libgomp leg: the large sets only */
        }
        for(i = 0; i < n; i++){
                t += fsize(&F[i]);
        }
        return t + NBIG;
}

static int g_tree_tasks;
static int g_tree[4096][3];
static int g_active;
#include <pthread.h>
static pthread_mutex_t g_snaplock = PTHREAD_MUTEX_INITIALIZER;

static void hook(int ev, int a, int b, int c, const void* p, const void* q)
{
        (void)a; (void)b; (void)q;
        if(!g_active){
                return;
        }
        if(ev == KV_TREE){
                const struct aln_tasks* t = p;
                int i;
                g_tree_tasks = t->n_tasks < 4096 ? t->n_tasks : 4096;
                for(i = 0; i < g_tree_tasks; i++){
                        g_tree[i][0] = t->list[i]->a;
                        g_tree[i][1] = t->list[i]->b;
                        g_tree[i][2] = t->list[i]->c;
                }
        }else if(ev == KV_MERGE_END){
                /* on the libgomp leg node completions arrive from several threads: the snapshot store is serialised (the vectors
                   copied belong to the node that has just completed; no other task writes them any more) */
                pthread_mutex_lock(&g_snaplock);
                take_snapshot(c, (const struct msa*)p);
                pthread_mutex_unlock(&g_snaplock);
        }
}

static void decode(uint64_t id, int tier, struct kx_set* in, int* preset, int* big)
{
        int n, i, j;
        const struct fam* F = fams(tier, &n);
        kx_set_init(in);
        *big = -1;
        for(i = 0; i < n && C10_THREADS <= 1; i++){
                uint64_t sz = fsize(&F[i]);
                if(id < sz){
                        uint64_t S = kx_count_strings((int)strlen(F[i].alpha), 1, F[i].L);
                        char buf[16];
                        *preset = (int)(id % 3);
                        id /= 3;
                        for(j = 0; j < F[i].k; j++){
                                kx_nth_string(id % S, F[i].alpha, 1, F[i].L, buf);
                                id /= S;
                                kx_set_addf(in, buf, "s%d", j);
                        }
                        return;
                }
                id -= sz;
        }
        *big = (int)id;
        *preset = 0;
        if(id >= NBIG0 + SH_NTIE){
                static const int CNT[6] = {255, 256, 257, 511, 512, 513};
                int k = (int)(id - NBIG0 - SH_NTIE), n1 = CNT[k % 6], n2 = (k / 6) ? 120 : 8, q;
                uint64_t st = 0xFA12 + (uint64_t)k;
                char A[40], B[40], tmp[48];
                sh_random_seq(&st, "LKWAVDEG", 24, A);
                sh_random_seq(&st, "STNQRHFY", 30, B);
                for(q = 0; q < n1 + n2; q++){
                        const char* base = q < n1 ? A : B;
                        int bl = (int)strlen(base);
                        sh_derive(&st, q < n1 ? "LKWAVDEG" : "STNQRHFY", base, bl, bl - (q % 3), tmp);
                        kx_set_addf(in, tmp, q < n1 ? "a%04d" : "b%04d", q);
                }
        }else if(id >= NBIG0){
                sh_tie_build((int)(id - NBIG0), in);
        }else if(id < 3){
                sinput_build(sinput_get(11 + (int)id), in);
        }else{
                /* the count sets of the large-shape family (99,100,101,... sequences) */
                int base = sh_npairs(tier);
                shapes_build(base + (int)(id - 3), tier, vh_seed, in);
        }
}

void vh_describe(uint64_t id, int tier, char* buf, size_t n)
{
        struct kx_set in;
        int preset, big, i;
        size_t o;
        decode(id, tier, &in, &preset, &big);
        o = (size_t)snprintf(buf, n, "gp=(%g,%g,%g) %d sequences%s:", PRESET[preset][0], PRESET[preset][1], PRESET[preset][2], in.n, big >= 0 ? " (k-means / large set)" : "");
        for(i = 0; i < in.n && i < 6; i++){
                o += (size_t)snprintf(buf + o, n - o, " \"%.20s\"", in.seq[i]);
        }
        kx_set_free(&in);
}

int vh_case(uint64_t id, int tier)
{
        struct kx_set in;
        struct msa* m;
        int preset, big, rc;
        long regroup = 0;
        const char* msg;
        decode(id, tier, &in, &preset, &big);
        if(getenv("C10_FASTA")){
                /* diagnostic: judge one external FASTA file instead of the enumerated case */
                size_t fl = 0;
                char* data = vh_read_file(getenv("C10_FASTA"), &fl);
                struct fp_aln a;
                int q;
                kx_set_free(&in);
                kx_set_init(&in);
                fp_parse_fasta(data, &a);
                for(q = 0; q < a.n; q++){
                        kx_set_add(&in, a.row[q], a.name[q]);
                }
                fp_free(&a);
                free(data);
                big = 0;
                preset = 0;
        }
        m = kx_make_msa(&in);
        free_snapshots();
        g_tree_tasks = 0;
        kalign_verif_hook = hook;
        g_active = 1;
        if(big >= 0){
                vh_case_timeout = 120;
                alarm(120);
        }
        vh_count("library_calls");
        rc = kalign_run(m, (C10_THREADS > 1 && big >= 0) ? C10_THREADS : 1, KALIGN_TYPE_UNDEFINED, PRESET[preset][0], PRESET[preset][1], PRESET[preset][2]);
        g_active = 0;
        if(rc != OK){
                vh_fail("sem:run-failed", "kalign_run failed on a valid input");
        }else{
                if(nsnap != g_tree_tasks || nsnap != m->numseq - 1){
                        vh_fail("sem:hook-missing", "%d node completions for %d merges of %d sequences", nsnap, g_tree_tasks, m->numseq);
                }
                if(getenv("C10_TREE")){
                        FILE* df = fopen(getenv("C10_TREE"), "a");
                        int q;
                        fprintf(df, "case %llu:", (unsigned long long)id);
                        for(q = 0; q < g_tree_tasks; q++){
                                fprintf(df, " (%d,%d->%d)", g_tree[q][0], g_tree[q][1], g_tree[q][2]);
                        }
                        fprintf(df, " | order:");
                        for(q = 0; q < m->numseq; q++){
                                fprintf(df, " %s", m->sequences[q]->name);
                        }
                        fprintf(df, "\n");
                        fclose(df);
                }
                msg = check_c10(m, &in, &regroup);
                if(msg){
                        vh_fail("sem:c10-projection", "%s", msg);
                }
                vh_add("internal_nodes_checked", (uint64_t)nsnap);
                vh_add("nodes_regrouped_with_gaps", (uint64_t)regroup);
                if(regroup){
                        vh_count("nontrivial_cases_with_regrouped_gapped_node");
                }
                /* tree shape: depth of the root */
                {
                        int depth[8192] = {0}, i, j, maxd = 0, n = m->numseq;
                        /* the TREE event lists the tasks parent-first; node labels are post-order, so ascending c = children first */
                        for(i = 1; i < g_tree_tasks; i++){
                                int t0 = g_tree[i][0], t1 = g_tree[i][1], t2 = g_tree[i][2];
                                for(j = i - 1; j >= 0 && g_tree[j][2] > t2; j--){
                                        g_tree[j + 1][0] = g_tree[j][0];
                                        g_tree[j + 1][1] = g_tree[j][1];
                                        g_tree[j + 1][2] = g_tree[j][2];
                                }
                                g_tree[j + 1][0] = t0;
                                g_tree[j + 1][1] = t1;
                                g_tree[j + 1][2] = t2;
                        }
                        for(i = 0; i < g_tree_tasks; i++){
                                int a = g_tree[i][0], b = g_tree[i][1], c = g_tree[i][2];
                                int da = a < 8192 ? depth[a] : 0, db = b < 8192 ? depth[b] : 0;
                                if(c < 8192){
                                        depth[c] = 1 + (da > db ? da : db);
                                        if(depth[c] > maxd){
                                                maxd = depth[c];
                                        }
                                }
                        }
                        if(n >= 4){
                                vh_count(maxd == n - 1 ? "caterpillar_trees" : "balanced_or_mixed_trees");
                        }
                        if(n >= 100){
                                vh_count("kmeans_trees");
                        }
                }
        }
        free_snapshots();
        kalign_free_msa(m);
        kx_set_free(&in);
        return VH_OK;
}
