/* C05, command-line leg: every option string of a small grammar, unreadable inputs, unwritable outputs and every
   single injected fopen() failure, run through the CLI's own main() in a forked child (ASan/UBSan build).
   Oracle: the process terminates by itself; exit 0 => the output exists and is a valid alignment of the input;
   exit != 0 => a diagnostic was written; everything valid => exit 0; missing input / unwritable output / injected
   open failure => exit != 0. */
#define KX_WITH_CLI
#include "vh.h"
#include "kx.h"
#include <dlfcn.h>

const char* vh_property = "C05";

static const char* TYPES[8] = {NULL, "rna", "dna", "internal", "protein", "divergent", "", "xyz"};
static const char* GPO[6] = {NULL, "0", "5.5", "-3", "nan", "text"};
static const char* GPX[3] = {NULL, "0.5", "text"};
static const char* NTH[7] = {NULL, "0", "-1", "1", "2", "64", "abc"};
static const char* FMTS[5] = {NULL, "fasta", "msf", "clu", "xyz"};
enum { IN_DNA, IN_PROT, IN_MISSING, IN_DIR, IN_EMPTY, IN_SINGLE, NIN };
enum { OUT_FILE, OUT_BADDIR, OUT_STDOUT, OUT_DEVFULL, NOUT };   /* /dev/full: the path opens, every write fails (disk full) */

struct ocase { int type, gpo, gpe, tgpe, nth, fmt, in, out; int fault_k; int fault_shape; int extra; };

#define NP1 (8 * NIN * NOUT * 5)
#define NP2 (6 * 3 * 3 * 7 * 2)
#define NFULL (8 * 6 * 3 * 3 * 7 * 5 * NIN * NOUT)
#define NFAULT (3 * 3 * 12)     /* 3 formats x 3 input shapes x k = 1..12 (k beyond the calls made is skipped) */
#define NEXTRA 6        /* two good files plus a file without any sequence (0 bytes / blank lines only) as first, middle or last input */

uint64_t vh_total(int tier) { return (tier ? (uint64_t)NFULL : (uint64_t)(NP1 + NP2)) + NFAULT + NEXTRA; }

static void decode(uint64_t id, int tier, struct ocase* c)
{
        uint64_t nopt = tier ? (uint64_t)NFULL : (uint64_t)(NP1 + NP2);
        memset(c, 0, sizeof *c);
        c->fault_k = 0;
        if(id >= nopt + NFAULT){
                c->extra = (int)(id - nopt - NFAULT) + 1;
                c->in = IN_DNA;
                c->out = OUT_FILE;
                return;
        }
        if(id >= nopt){
                id -= nopt;
                c->fault_k = (int)(id % 12) + 1;
                id /= 12;
                c->fault_shape = (int)(id % 3);
                c->fmt = 1 + (int)(id / 3);
                c->in = IN_DNA;
                c->out = OUT_FILE;
                return;
        }
        if(tier){
                c->type = (int)(id % 8); id /= 8;
                c->gpo = (int)(id % 6); id /= 6;
                c->gpe = (int)(id % 3); id /= 3;
                c->tgpe = (int)(id % 3); id /= 3;
                c->nth = (int)(id % 7); id /= 7;
                c->fmt = (int)(id % 5); id /= 5;
                c->in = (int)(id % NIN); id /= NIN;
                c->out = (int)id;
        }else if(id < NP1){
                c->type = (int)(id % 8); id /= 8;
                c->in = (int)(id % NIN); id /= NIN;
                c->out = (int)(id % NOUT); id /= NOUT;
                c->fmt = (int)id;
        }else{
                id -= NP1;
                c->gpo = (int)(id % 6); id /= 6;
                c->gpe = (int)(id % 3); id /= 3;
                c->tgpe = (int)(id % 3); id /= 3;
                c->nth = (int)(id % 7); id /= 7;
                c->type = id ? 2 : 0;
                c->in = IN_DNA;
                c->out = OUT_FILE;
        }
}

static char P_DNA[400], P_DNA2[400], P_PROT[400], P_MISSING[400], P_DIR[400], P_EMPTY[400], P_SINGLE[400], P_OUT[400], P_BADOUT[400], P_STDIN[400], P_BLANK[400];
static struct kx_set IN_SET[2], IN_SET5;

void vh_init(int tier)
{
        (void)tier;
        snprintf(P_DNA, sizeof P_DNA, "%s/dna.fa", vh_tmpdir);
        snprintf(P_DNA2, sizeof P_DNA2, "%s/dna2.fa", vh_tmpdir);
        snprintf(P_PROT, sizeof P_PROT, "%s/prot.fa", vh_tmpdir);
        snprintf(P_MISSING, sizeof P_MISSING, "%s/does-not-exist.fa", vh_tmpdir);
        snprintf(P_DIR, sizeof P_DIR, "%s/adir", vh_tmpdir);
        snprintf(P_EMPTY, sizeof P_EMPTY, "%s/empty.fa", vh_tmpdir);
        snprintf(P_SINGLE, sizeof P_SINGLE, "%s/single.fa", vh_tmpdir);
        snprintf(P_OUT, sizeof P_OUT, "%s/out.aln", vh_tmpdir);
        snprintf(P_BADOUT, sizeof P_BADOUT, "%s/no-such-dir/out.aln", vh_tmpdir);
        snprintf(P_STDIN, sizeof P_STDIN, "%s/stdin.fa", vh_tmpdir);
        mkdir(P_DIR, 0700);
        snprintf(P_BLANK, sizeof P_BLANK, "%s/blank.fa", vh_tmpdir);
        vh_write_file(P_BLANK, "\n\n", 2);
        kx_set_init(&IN_SET5);
        kx_set_add(&IN_SET5, "ACGTACGTTG", "d1");
        kx_set_add(&IN_SET5, "ACGACGTTG", "d2");
        kx_set_add(&IN_SET5, "ACGTACTTG", "d3");
        kx_set_add(&IN_SET5, "ACGTACGTT", "d4");
        kx_set_add(&IN_SET5, "CGTACGTTG", "d5");
        kx_set_init(&IN_SET[0]);
        kx_set_add(&IN_SET[0], "ACGTACGTTG", "d1");
        kx_set_add(&IN_SET[0], "ACGACGTTG", "d2");
        kx_set_add(&IN_SET[0], "ACGTACTTG", "d3");
        kx_set_init(&IN_SET[1]);
        kx_set_add(&IN_SET[1], "LKWDELKWAV", "p1");
        /* U, O and J are legal letters outside the 20 + B/Z/X the alphabets know: the library warns about them (on standard error) */
        kx_set_add(&IN_SET[1], "LKWELKUAV", "p2");
        kx_set_add(&IN_SET[1], "LKODELKJV", "p3");
        {
                char* t = kx_fasta_text(&IN_SET[0], 0);
                vh_write_file(P_DNA, t, strlen(t));
                free(t);
                t = kx_fasta_text(&IN_SET[1], 0);
                vh_write_file(P_PROT, t, strlen(t));
                free(t);
        }
        vh_write_file(P_EMPTY, "", 0);
        vh_write_file(P_SINGLE, ">only\nACGT\n", 11);
        vh_write_file(P_DNA2, ">d4\nACGTACGTT\n>d5\nCGTACGTTG\n", 29);
        vh_write_file(P_STDIN, ">d6\nACGTTCGTTG\n", 15);
}

/* ---- fault injection: the k-th fopen() of the child fails ---- */
static pid_t harness_pid;
static int* FAULT;      /* shared: [0] = target k (0 none), [1] = calls seen */
FILE* fopen(const char* path, const char* mode)
{
        static FILE* (*real)(const char*, const char*) = NULL;
        if(!real){
                real = (FILE* (*)(const char*, const char*))dlsym(RTLD_NEXT, "fopen");
        }
        if(FAULT && FAULT[0] >= 0 && getpid() != harness_pid){
                FAULT[1]++;
                if(getenv("C05_TRACE")){
                        dprintf(2, "fopen #%d: %s (%s)\n", FAULT[1], path, mode);
                }
                if(FAULT[0] > 0 && FAULT[1] == FAULT[0]){
                        errno = EACCES;
                        return NULL;
                }
        }
        return real(path, mode);
}

static void cmdline(const struct ocase* c, char** argv, int* n, const char** stdin_path)
{
        int k = 0;
        static const char* inpath[NIN];
        inpath[IN_DNA] = P_DNA;
        inpath[IN_PROT] = P_PROT;
        inpath[IN_MISSING] = P_MISSING;
        inpath[IN_DIR] = P_DIR;
        inpath[IN_EMPTY] = P_EMPTY;
        inpath[IN_SINGLE] = P_SINGLE;
        argv[k++] = "kalign";
        *stdin_path = NULL;
        if(TYPES[c->type]){ argv[k++] = "--type"; argv[k++] = (char*)TYPES[c->type]; }
        if(GPO[c->gpo]){ argv[k++] = "--gpo"; argv[k++] = (char*)GPO[c->gpo]; }
        if(GPX[c->gpe]){ argv[k++] = "--gpe"; argv[k++] = (char*)GPX[c->gpe]; }
        if(GPX[c->tgpe]){ argv[k++] = "--tgpe"; argv[k++] = (char*)GPX[c->tgpe]; }
        if(NTH[c->nth]){ argv[k++] = "-n"; argv[k++] = (char*)NTH[c->nth]; }
        if(FMTS[c->fmt]){ argv[k++] = "--format"; argv[k++] = (char*)FMTS[c->fmt]; }
        if(c->extra){
                /* kalign -i f1 f2 f3 -o out: the two good files in order, the sequence-free file at position (extra-1) % 3 */
                const char* e = (c->extra - 1) / 3 ? P_BLANK : P_EMPTY;
                int pos = (c->extra - 1) % 3, j, g = 0;
                argv[k++] = "-i";
                for(j = 0; j < 3; j++){
                        argv[k++] = (char*)(j == pos ? e : (g++ ? P_DNA2 : P_DNA));
                }
                argv[k++] = "-o";
                argv[k++] = P_OUT;
                argv[k] = NULL;
                *n = k;
                return;
        }
        argv[k++] = "-i";
        argv[k++] = (char*)inpath[c->in];
        if(c->fault_k){
                if(c->fault_shape >= 1){
                        argv[k++] = P_DNA2;
                }
                if(c->fault_shape == 2){
                        *stdin_path = P_STDIN;
                }
        }
        if(c->out != OUT_STDOUT){
                argv[k++] = "-o";
                argv[k++] = c->out == OUT_FILE ? P_OUT : (c->out == OUT_DEVFULL ? "/dev/full" : P_BADOUT);
        }
        argv[k] = NULL;
        *n = k;
}

void vh_describe(uint64_t id, int tier, char* buf, size_t n)
{
        struct ocase c;
        char* argv[32];
        int na, i;
        const char* sp;
        size_t o = 0;
        decode(id, tier, &c);
        cmdline(&c, argv, &na, &sp);
        for(i = 0; i < na; i++){
                const char* a = argv[i];
                const char* b = strrchr(a, '/');
                o += (size_t)snprintf(buf + o, n - o, "%s%s", i ? " " : "", (b && strstr(a, vh_tmpdir)) ? b + 1 : (a[0] ? a : "''"));
        }
        if(c.fault_k){
                snprintf(buf + o, n - o, "  [fopen call #%d fails%s]", c.fault_k, sp ? ", one record on stdin" : "");
        }
}

int vh_case(uint64_t id, int tier)
{
        struct ocase c;
        char* argv[32];
        int na;
        const char* sp;
        struct kx_cli_result res;
        int type_ok, expect_ok, must_fail;
        decode(id, tier, &c);
        cmdline(&c, argv, &na, &sp);
        if(!FAULT){
                FAULT = mmap(NULL, 2 * sizeof(int), PROT_READ | PROT_WRITE, MAP_SHARED | MAP_ANONYMOUS, -1, 0);
        }
        unlink(P_OUT);
        harness_pid = getpid();
        FAULT[0] = c.fault_k;
        FAULT[1] = 0;
        vh_count("library_calls");
        kx_cli(argv, sp, NULL, &res, vh_tmpdir);
        FAULT[0] = -1;
        if(c.fault_k && FAULT[1] < c.fault_k){
                return VH_SKIP;         /* the run makes fewer fopen calls than k */
        }
        if(!res.exited){
                char sig[64];
                snprintf(sig, sizeof sig, "signal:%d@cli", res.status);
                vh_fail(res.status == SIGALRM ? "timeout@cli" : sig, "the command line program was killed by signal %d; stderr: %.300s", res.status, res.err);
                return VH_OK;
        }
        if(strstr(res.err, "AddressSanitizer") || strstr(res.err, "runtime error:")){
                /* sanitizer report inside the child: let the driver see it */
                fprintf(stderr, "%s\n", res.err);
                _exit(66);
        }
        type_ok = (c.type == 0) || (c.in == IN_PROT ? (c.type == 4 || c.type == 5) : (c.type >= 1 && c.type <= 3));
        if(c.type == 6 || c.type == 7){
                type_ok = 0;
        }
        expect_ok = type_ok && (c.fmt != 4) && (c.nth == 0 || c.nth == 3 || c.nth == 4 || c.nth == 5) && (c.in == IN_DNA || c.in == IN_PROT) &&
                    c.out != OUT_BADDIR && c.out != OUT_DEVFULL && !c.fault_k && !c.extra;
        must_fail = (c.in == IN_MISSING || c.in == IN_DIR || c.in == IN_EMPTY || c.in == IN_SINGLE || c.out == OUT_BADDIR || c.out == OUT_DEVFULL || c.fault_k ||
                     c.fmt == 4 || c.type == 7);
        if(res.status == 0){
                /* success: the output must exist and be a valid alignment of the input */
                size_t dl = 0;
                char* data = c.out == OUT_STDOUT ? strdup(res.out) : (c.out == OUT_DEVFULL ? NULL : vh_read_file(P_OUT, &dl));
                struct fp_aln a;
                int pr, fmt = c.fmt == 2 ? 2 : (c.fmt == 3 ? 1 : 0);
                if(must_fail){
                        vh_fail(c.fault_k ? "sem:exit0-after-open-failure" : (c.out == OUT_BADDIR ? "sem:exit0-unwritable-output" : (c.out == OUT_DEVFULL ? "sem:exit0-output-device-full" : "sem:exit0-on-invalid-request")),
                                "exit status 0 although the request cannot be fulfilled; stderr: %.400s", res.err);
                }
                if(!data || !data[0]){
                        if(!must_fail){
                                vh_fail("sem:exit0-without-output", "exit status 0 but no alignment was written");
                        }
                }else if(c.in == IN_DNA || c.in == IN_PROT){
                        memset(&a, 0, sizeof a);
                        pr = fmt == 0 ? fp_parse_fasta(data, &a) : (fmt == 1 ? fp_parse_clustal(data, &a) : fp_parse_msf(data, &a));
                        if(pr){
                                vh_fail("sem:cli-output-unparsable", "exit 0 but the %s output cannot be parsed: %s", c.out == OUT_STDOUT ? "standard" : "file", a.err);
                        }else if(!c.fault_k){
                                char why[300];
                                if(kx_check_alignment(c.extra ? &IN_SET5 : &IN_SET[c.in == IN_PROT], a.n, a.row, a.name, a.n ? (int)strlen(a.row[0]) : 0, why, sizeof why)){
                                        vh_fail(c.extra ? "sem:cli-sequences-of-a-named-file-dropped" : "sem:cli-invalid-alignment", "exit 0 but the output is not a valid alignment of the input: %s", why);
                                }else{
                                        vh_count("nontrivial_successful_cli_runs");
                                }
                        }
                        fp_free(&a);
                }
                free(data);
        }else{
                if(res.errn + res.outn == 0){
                        vh_fail("sem:no-diagnostic", "exit status %d without any message", res.status);
                }
                if(expect_ok){
                        vh_fail("sem:valid-request-rejected", "a valid command line fails with exit status %d: %.200s", res.status, res.err);
                }
                vh_count("failures_reported_as_failures");
        }
        if(c.fault_k){
                vh_count("fopen_faults_injected");
        }
        return VH_OK;
}
