/* C05, second command-line program: every option string of a small grammar for kalignfmt (src/run_reformat.c), over
   aligned / unaligned / missing / unreadable / empty inputs and writable / unwritable outputs, through kalignfmt's own
   main() in a forked child (ASan/UBSan build).
   Oracle: the process terminates by itself without a sanitizer report; missing, unreadable or empty input, an unknown
   format word and an unwritable output give a failure status; a failure status comes with a diagnostic; exit 0 comes
   with an output; where that output parses in the requested format and the input was aligned (no --clean), it holds
   the rows of the input.  Not judged: log lines on standard output next to the alignment, and the refusal of
   --unalign by the writer (DESIGN.md section 4). */
#define KX_WITH_CLI
#define kalign_cli_main c05fmt_dispatch_main
#include "vh.h"
#include "kx.h"
#undef kalign_cli_main
int kalignfmt_cli_main(int argc, char** argv);
int c05fmt_dispatch_main(int argc, char** argv) { return kalignfmt_cli_main(argc, argv); }

const char* vh_property = "C05";

static const char* FMTS[5] = {NULL, "fasta", "msf", "clu", "xyz"};
enum { IN_AFA, IN_MSF, IN_CLU, IN_UFA, IN_MISSING, IN_DIR, IN_EMPTY, IN_SINGLE, NIN };
enum { OUT_FILE, OUT_BADDIR, OUT_STDOUT, NOUT };
enum { FL_NONE, FL_UNALIGN, FL_RENAME, FL_CLEAN, FL_UNALIGN_RENAME, FL_CLEAN_RENAME, NFL };
#define NROW 3
static const char* ROWS[NROW] = {"ACGT-ACGTTG", "ACG--ACGTTG", "ACGTTAC-TTG"};
static const char* NAMES[NROW] = {"s1", "s2", "s3"};

struct ocase { int fmt, in, out, fl; };
uint64_t vh_total(int tier) { (void)tier; return 5 * NIN * NOUT * NFL; }
static void decode(uint64_t id, struct ocase* c)
{
        c->fmt = (int)(id % 5); id /= 5;
        c->in = (int)(id % NIN); id /= NIN;
        c->out = (int)(id % NOUT); id /= NOUT;
        c->fl = (int)id;
}

static char P_IN[NIN][400], P_OUT[400], P_BADOUT[400];

void vh_init(int tier)
{
        static const char* base[NIN] = {"a.fa", "a.msf", "a.clu", "u.fa", "does-not-exist.fa", "adir", "empty.fa", "single.fa"};
        struct msa* m = NULL;
        char t[600];
        int i, o = 0;
        (void)tier;
        for(i = 0; i < NIN; i++){
                snprintf(P_IN[i], sizeof P_IN[i], "%s/%s", vh_tmpdir, base[i]);
        }
        snprintf(P_OUT, sizeof P_OUT, "%s/out.aln", vh_tmpdir);
        snprintf(P_BADOUT, sizeof P_BADOUT, "%s/no-such-dir/out.aln", vh_tmpdir);
        mkdir(P_IN[IN_DIR], 0700);
        for(i = 0; i < NROW; i++){
                o += snprintf(t + o, sizeof t - (size_t)o, ">%s\n%s\n", NAMES[i], ROWS[i]);
        }
        vh_write_file(P_IN[IN_AFA], t, strlen(t));
        vh_write_file(P_IN[IN_UFA], ">s1\nACGTACGTTG\n>s2\nACGACGTTG\n>s3\nACGTTACTTG\n", 43);
        vh_write_file(P_IN[IN_EMPTY], "", 0);
        vh_write_file(P_IN[IN_SINGLE], ">only\nACGT\n", 11);
        if(kalign_read_input(P_IN[IN_AFA], &m, 1) != OK || !m || kalign_write_msa(m, P_IN[IN_MSF], "msf") != OK ||
           kalign_write_msa(m, P_IN[IN_CLU], "clu") != OK){
                fprintf(stderr, "C05fmt: cannot prepare the MSF / Clustal inputs\n");
                exit(2);
        }
        kalign_free_msa(m);
}

static void cmdline(const struct ocase* c, char** argv, int* n)
{
        int k = 0;
        argv[k++] = "kalignfmt";
        if(FMTS[c->fmt]){ argv[k++] = "--format"; argv[k++] = (char*)FMTS[c->fmt]; }
        if(c->fl == FL_UNALIGN || c->fl == FL_UNALIGN_RENAME){ argv[k++] = "--unalign"; }
        if(c->fl == FL_CLEAN || c->fl == FL_CLEAN_RENAME){ argv[k++] = "--clean"; }
        if(c->fl == FL_RENAME || c->fl == FL_UNALIGN_RENAME || c->fl == FL_CLEAN_RENAME){ argv[k++] = "--changename"; }
        argv[k++] = "-i";
        argv[k++] = P_IN[c->in];
        if(c->out != OUT_STDOUT){
                argv[k++] = "-o";
                argv[k++] = c->out == OUT_FILE ? P_OUT : P_BADOUT;
        }
        argv[k] = NULL;
        *n = k;
}

void vh_describe(uint64_t id, int tier, char* buf, size_t n)
{
        struct ocase c;
        char* argv[32];
        int na, i;
        size_t o = 0;
        (void)tier;
        decode(id, &c);
        cmdline(&c, argv, &na);
        for(i = 0; i < na; i++){
                const char* a = argv[i];
                const char* b = strrchr(a, '/');
                o += (size_t)snprintf(buf + o, n - o, "%s%s", i ? " " : "", (b && strstr(a, vh_tmpdir)) ? b + 1 : a);
        }
}

int vh_case(uint64_t id, int tier)
{
        struct ocase c;
        char* argv[32];
        int na, must_fail, unalign, clean, rename, aligned_in;
        struct kx_cli_result res;
        (void)tier;
        decode(id, &c);
        cmdline(&c, argv, &na);
        unlink(P_OUT);
        vh_count("library_calls");
        kx_cli(argv, NULL, NULL, &res, vh_tmpdir);
        if(!res.exited){
                char sig[64];
                snprintf(sig, sizeof sig, "signal:%d@kalignfmt", res.status);
                vh_fail(res.status == SIGALRM ? "timeout@kalignfmt" : sig, "kalignfmt was killed by signal %d; stderr: %.300s", res.status, res.err);
                return VH_OK;
        }
        if(strstr(res.err, "AddressSanitizer") || strstr(res.err, "runtime error:")){
                fprintf(stderr, "%s\n", res.err);
                _exit(66);
        }
        unalign = c.fl == FL_UNALIGN || c.fl == FL_UNALIGN_RENAME;
        clean = c.fl == FL_CLEAN || c.fl == FL_CLEAN_RENAME;
        rename = c.fl == FL_RENAME || c.fl == FL_UNALIGN_RENAME || c.fl == FL_CLEAN_RENAME;
        aligned_in = c.in == IN_AFA || c.in == IN_MSF || c.in == IN_CLU;
        must_fail = c.in == IN_MISSING || c.in == IN_DIR || c.in == IN_EMPTY || c.out == OUT_BADDIR || c.fmt == 4;
        if(res.status == 0){
                size_t dl = 0;
                char* data = c.out == OUT_STDOUT ? strdup(res.out) : vh_read_file(P_OUT, &dl);
                if(must_fail){
                        vh_fail(c.out == OUT_BADDIR ? "sem:fmt-exit0-unwritable-output" : "sem:fmt-exit0-on-invalid-request",
                                "exit status 0 although the request cannot be fulfilled; stderr: %.400s", res.err);
                }else if(!data || !data[0]){
                        vh_fail("sem:fmt-exit0-without-output", "exit status 0 but nothing was written");
                }else{
                        struct fp_aln a;
                        int fmt = unalign ? 0 : (c.fmt == 2 ? 2 : (c.fmt == 3 ? 1 : 0));
                        int pr, i;
                        memset(&a, 0, sizeof a);
                        pr = fmt == 0 ? fp_parse_fasta(data, &a) : (fmt == 1 ? fp_parse_clustal(data, &a) : fp_parse_msf(data, &a));
                        if(pr){
                                vh_count("outputs_not_parsed_not_judged");     /* log lines share standard output with the alignment: not judged */
                        }else if(aligned_in && !clean){
                                int bad = a.n != NROW;
                                for(i = 0; i < NROW && !bad; i++){
                                        char want[64];
                                        const char* s = ROWS[i];
                                        int k = 0;
                                        for(; *s; s++){
                                                if(!unalign || *s != '-'){
                                                        want[k++] = *s;
                                                }
                                        }
                                        want[k] = 0;
                                        if(strcmp(want, a.row[i]) || (!rename && strcmp(NAMES[i], a.name[i]))){
                                                bad = 1;
                                        }
                                }
                                if(bad){
                                        vh_fail("sem:fmt-rows-changed", "exit 0 but the output does not hold the rows of the input (%d rows, first: %.40s)",
                                                a.n, a.n ? a.row[0] : "");
                                }else{
                                        vh_count("nontrivial_successful_cli_runs");
                                }
                        }
                        fp_free(&a);
                }
                free(data);
        }else{
                if(res.errn + res.outn == 0){
                        vh_fail("sem:fmt-no-diagnostic", "exit status %d without any message", res.status);
                }
                if(aligned_in && c.out != OUT_BADDIR && c.fmt != 4 && !unalign){
                        vh_fail("sem:fmt-valid-request-rejected", "a valid command line fails with exit status %d: %.200s", res.status, res.err);
                }
                vh_count("failures_reported_as_failures");
        }
        return VH_OK;
}
