/* The blocked bit-parallel routine of lib/src/bpm.c instantiated with 8-bit words: the same source,
   so that patterns of 9..128 symbols exercise 2..16 blocks, the carries between blocks and the wildcard
   padding of the last block, in a space small enough to enumerate completely. */
#include <stddef.h>
#include <stdint.h>
#include <stdio.h>
#include <stdlib.h>
#include <string.h>
#include <stdalign.h>
#include "tldevel.h"
#undef HAVE_AVX2
#define bpm_block bpm_block_w8
#define bpm bpm_w8_unused
#define bpm_256 bpm_256_w8_unused
#define dyn_256 dyn_256_w8_unused
#define set_broadcast_mask set_broadcast_mask_w8_unused
#define uint64_t uint8_t
#include "bpm.c"
