/* C10 oracle shared by the enumeration harness (C10_progressive.c) and the schedule harness (C02_sched.c):
   snapshot of the member gap vectors of a node when it completes (MERGE_END hook), and the comparison of every
   snapshot with the projection of the final alignment onto the node's members. */
#ifndef C10SNAP_H
#define C10SNAP_H
#include "kx.h"

/* C10 snapshots: for node c, the gap vectors of its members at MERGE_END */
struct snap { int c; int nmem; int* mem; int** gaps; int* len; };
static struct snap* SNAP = NULL;
static int nsnap = 0, capsnap = 0;

static void take_snapshot(int c, const struct msa* msa)
{
        struct snap* s;
        int i, j;
        if(nsnap == capsnap){
                capsnap = capsnap ? capsnap * 2 : 64;
                SNAP = realloc(SNAP, sizeof(*SNAP) * (size_t)capsnap);
        }
        s = &SNAP[nsnap++];
        s->c = c;
        s->nmem = msa->nsip[c];
        s->mem = malloc(sizeof(int) * (size_t)s->nmem);
        s->gaps = malloc(sizeof(int*) * (size_t)s->nmem);
        s->len = malloc(sizeof(int) * (size_t)s->nmem);
        for(i = 0; i < s->nmem; i++){
                int id = msa->sip[c][i];
                struct msa_seq* q = msa->sequences[id];
                s->mem[i] = id;
                s->len[i] = q->len;
                s->gaps[i] = malloc(sizeof(int) * (size_t)(q->len + 1));
                for(j = 0; j <= q->len; j++){
                        s->gaps[i][j] = q->gaps[j];
                }
        }
}

static void free_snapshots(void)
{
        int i, k;
        for(k = 0; k < nsnap; k++){
                for(i = 0; i < SNAP[k].nmem; i++){
                        free(SNAP[k].gaps[i]);
                }
                free(SNAP[k].gaps);
                free(SNAP[k].mem);
                free(SNAP[k].len);
        }
        nsnap = 0;
}


/* C10: final rows of a node's members, all-gap columns (within the group) removed, must equal the snapshot rows */
static const char* check_c10(struct msa* m, const struct kx_set* in, long* regroup)
{
        static char msg[256];
        int k, i, j;
        /* m->sequences is in rank (input) order after kalign_run; snapshot member ids refer to the canonical
           (sorted) order.  Map through the residue strings is ambiguous with duplicates, so map by pointer:
           we recorded ids in sorted order; recover sorted order by sorting on (len desc, name) as kalign did. */
        int n = m->numseq;
        int* sorted_to_final = malloc(sizeof(int) * (size_t)n);
        {
                /* reproduce msa_sort_len_name on the final objects: len desc then name */
                int* idx = malloc(sizeof(int) * (size_t)n);
                for(i = 0; i < n; i++){
                        idx[i] = i;
                }
                for(i = 1; i < n; i++){
                        int v = idx[i];
                        j = i - 1;
                        while(j >= 0){
                                struct msa_seq* A = m->sequences[idx[j]];
                                struct msa_seq* B = m->sequences[v];
                                int gt = (A->len < B->len) || (A->len == B->len && strncmp(A->name, B->name, MSA_NAME_LEN) > 0);
                                if(!gt){
                                        break;
                                }
                                idx[j + 1] = idx[j];
                                j--;
                        }
                        idx[j + 1] = v;
                }
                for(i = 0; i < n; i++){
                        sorted_to_final[i] = idx[i];
                }
                free(idx);
        }
        (void)in;
        for(k = 0; k < nsnap; k++){
                struct snap* s = &SNAP[k];
                int alen = m->alnlen;
                char* keep = calloc((size_t)alen + 1, 1);
                int had_gaps = 0;
                for(i = 0; i < s->nmem; i++){
                        const char* row = m->sequences[sorted_to_final[s->mem[i]]]->seq;
                        for(j = 0; j < alen; j++){
                                if(row[j] != '-'){
                                        keep[j] = 1;
                                }
                        }
                }
                for(i = 0; i < s->nmem; i++){
                        struct msa_seq* q = m->sequences[sorted_to_final[s->mem[i]]];
                        const char* row = q->seq;
                        /* projected gap vector */
                        int pos = 0, g = 0;
                        if(q->len != s->len[i]){
                                snprintf(msg, sizeof msg, "node %d: member length changed", s->c);
                                free(keep); free(sorted_to_final);
                                return msg;
                        }
                        for(j = 0; j < alen; j++){
                                if(!keep[j]){
                                        continue;
                                }
                                if(row[j] == '-'){
                                        g++;
                                }else{
                                        if(g != s->gaps[i][pos]){
                                                snprintf(msg, sizeof msg, "node %d (%d members): member %d has %d gaps before residue %d in the final alignment's projection, %d when the node was completed",
                                                         s->c, s->nmem, s->mem[i], g, pos, s->gaps[i][pos]);
                                                free(keep); free(sorted_to_final);
                                                return msg;
                                        }
                                        if(g){
                                                had_gaps = 1;
                                        }
                                        g = 0;
                                        pos++;
                                }
                        }
                        if(g != s->gaps[i][pos]){
                                snprintf(msg, sizeof msg, "node %d: member %d has %d trailing gaps in the projection, %d at completion", s->c, s->mem[i], g, s->gaps[i][pos]);
                                free(keep); free(sorted_to_final);
                                return msg;
                        }
                        if(g){
                                had_gaps = 1;
                        }
                }
                if(had_gaps && s->nmem < n){
                        (*regroup)++;
                }
                free(keep);
        }
        free(sorted_to_final);
        return NULL;
}


#endif
