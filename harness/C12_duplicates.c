/* C12 - duplicate input sequences receive identical rows (premise: no other sequence is contained
   in the duplicated one or contains it, letters of one similarity class counting as equal). */
#include "vh.h"
#include "kx.h"
#include "../oracle/editdist.h"
#include "shapes.h"

const char* vh_property = "C12";

struct fam { const char* alpha; int k; int L; int protein; int ntypes; };
static const struct fam FQ[] = {{"AC", 3, 4, 0, 4}, {"AC", 4, 3, 0, 2}, {"AC", 5, 2, 0, 1}, {"LMK", 3, 3, 1, 3}, {"LMK", 4, 2, 1, 1}};
static const struct fam FT[] = {{"AC", 3, 5, 0, 4}, {"ACG", 3, 3, 0, 4}, {"AC", 4, 4, 0, 1}, {"AC", 5, 3, 0, 1}, {"LMK", 3, 4, 1, 3}, {"LMK", 4, 3, 1, 1}, {"LMKR", 3, 3, 1, 3}};
static const int DT[] = {KALIGN_TYPE_UNDEFINED, KALIGN_TYPE_DNA, KALIGN_TYPE_DNA_INTERNAL, KALIGN_TYPE_RNA};
static const int PT[] = {KALIGN_TYPE_UNDEFINED, KALIGN_TYPE_PROTEIN, KALIGN_TYPE_PROTEIN_DIVERGENT};
#define NMANY 48        /* 20..99-sequence sets built from few distinct sequences */
#define NFRAG 30        /* a very long duplicated sequence plus short, almost-contained fragments (one edit each) */
#define NAMP 24         /* duplicated sequence plus two relatives that share a long verbatim prefix with it and carry a pseudo tandem
                           duplication on opposite sides of one block: copies that are not joined first get different gap positions */
#define NAMP2 4         /* the same with a 9000-residue duplicated sequence and 100-residue near-fragments (3 inserted residues) */
#define NTIESMALL 112   /* the tie family scaled down to shared prefixes of 70 and 300 residues: below the 1024 cap the distances are exact, the copies must be joined first */
#define NLONG 96         /* long duplicated sequence plus shorter relatives at substring edit distance exactly 256 / 512 */

static const struct fam* fams(int tier, int* n)
{
        *n = tier ? (int)(sizeof FT / sizeof FT[0]) : (int)(sizeof FQ / sizeof FQ[0]);
        return tier ? FT : FQ;
}
static uint64_t ipow(uint64_t b, int e) { uint64_t r = 1; while(e-- > 0){ r *= b; } return r; }
static uint64_t fsize(const struct fam* f)
{
        return ipow(kx_count_strings((int)strlen(f->alpha), 1, f->L), f->k) * (uint64_t)f->ntypes;
}

uint64_t vh_total(int tier)
{
        int n, i;
        const struct fam* F = fams(tier, &n);
        uint64_t t = 0;
        for(i = 0; i < n; i++){
                t += fsize(&F[i]);
        }
        return t + NMANY + NLONG + NFRAG + NAMP + NAMP2 + SH_NTIE + 2 * NTIESMALL;
}

struct dcase { struct kx_set in; int type; int protein; int many; };

static void decode(uint64_t id, int tier, struct dcase* c)
{
        int n, i, j;
        const struct fam* F = fams(tier, &n);
        kx_set_init(&c->in);
        c->many = -1;
        for(i = 0; i < n; i++){
                uint64_t sz = fsize(&F[i]);
                if(id < sz){
                        uint64_t S = kx_count_strings((int)strlen(F[i].alpha), 1, F[i].L);
                        char buf[16];
                        c->protein = F[i].protein;
                        c->type = F[i].protein ? PT[id % (uint64_t)F[i].ntypes] : DT[id % (uint64_t)F[i].ntypes];
                        id /= (uint64_t)F[i].ntypes;
                        for(j = 0; j < F[i].k; j++){
                                kx_nth_string(id % S, F[i].alpha, 1, F[i].L, buf);
                                id /= S;
                                kx_set_addf(&c->in, buf, "s%d", j);
                        }
                        return;
                }
                id -= sz;
        }
        if(id >= NMANY + NLONG + NFRAG + NAMP + NAMP2 + SH_NTIE){
                int k = (int)(id - NMANY - NLONG - NFRAG - NAMP - NAMP2 - SH_NTIE);
                kx_set_free(&c->in);
                sh_tie_build_scaled(k % NTIESMALL, k < NTIESMALL ? 70 : 300, &c->in);
                c->many = 6000 + k;
                c->protein = (k % NTIESMALL) & 1;
                c->type = KALIGN_TYPE_UNDEFINED;
                return;
        }
        if(id >= NMANY + NLONG + NFRAG + NAMP + NAMP2){
                /* sequences that share their first 1030 residues (the exact distance looks at 1024): all pairs tie */
                int k = (int)(id - NMANY - NLONG - NFRAG - NAMP - NAMP2);
                kx_set_free(&c->in);
                sh_tie_build(k, &c->in);
                c->many = 5000 + k;
                c->protein = (k < SH_NTIE_EQ) ? (k & 1) : 1;
                c->type = KALIGN_TYPE_UNDEFINED;
                return;
        }
        if(id >= NMANY + NLONG + NFRAG + NAMP){
                int k = (int)(id - NMANY - NLONG - NFRAG - NAMP);
                int L = 9000, layout = k & 1, protein = 1, at = 3000 + 700 * k, o;
                uint64_t st = 31337 + (uint64_t)k + (uint64_t)vh_seed;
                static char A[9100], X[160], Y[160];
                const char* alpha = (k & 2) ? "LKWAVDEGSTNQRHFYMICP" : "LKWAVDEGST";
                c->many = 4000 + k;
                c->protein = protein;
                c->type = KALIGN_TYPE_UNDEFINED;
                sh_random_seq(&st, alpha, L, A);
                memcpy(A + at + 50, "WDE", 3);
                memcpy(X, A + at, 100);
                X[100] = 0;
                memcpy(Y, A + at + 35, 100);    /* staggered: the two fragments overlap in 65 residues only, so they are far from each other */
                Y[100] = 0;
                /* X = ..WDE WEE..  Y = ..WEE WDE..  (three inserted residues resembling the block next to them) */
                o = 53;
                memmove(X + o + 3, X + o, strlen(X + o) + 1);
                memcpy(X + o, "WEE", 3);
                o = 15;
                memmove(Y + o + 3, Y + o, strlen(Y + o) + 1);
                memcpy(Y + o, "WEE", 3);
                if(layout == 0){
                        kx_set_add(&c->in, A, "dupA_1");
                        kx_set_add(&c->in, X, "fragX");
                        kx_set_add(&c->in, A, "dupA_2");
                        kx_set_add(&c->in, Y, "fragY");
                }else{
                        kx_set_add(&c->in, Y, "fragY");
                        kx_set_add(&c->in, A, "dupA_1");
                        kx_set_add(&c->in, A, "dupA_2");
                        kx_set_add(&c->in, X, "fragX");
                }
                return;
        }
        if(id >= NMANY + NLONG + NFRAG){
                static const int LL[3] = {129, 320, 600};
                int k = (int)(id - NMANY - NLONG - NFRAG);
                int L = LL[k % 3], protein = (k / 3) & 1, layout = (k / 6) & 1, far = (k / 12) & 1;
                int P = far ? (L >= 320 ? 258 : L - 60) : (2 * L) / 3, q, t;
                uint64_t st = 60606 + (uint64_t)k + (uint64_t)vh_seed;
                static char A[700], X[700], Y[700], B2[16];
                const char* alpha = protein ? "LKWAVDEGSTNQRHFYMICP" : "ACGT";
                int sigma = (int)strlen(alpha);
                c->many = 3000 + k;
                c->protein = protein;
                c->type = KALIGN_TYPE_UNDEFINED;
                sh_random_seq(&st, alpha, L, A);
                memcpy(B2, A + P, 12);
                B2[12] = 0;
                for(q = 2; q < 12; q += 4){
                        const char* at = strchr(alpha, B2[q]);
                        B2[q] = alpha[((int)(at - alpha) + 1 + (q % 3)) % sigma];
                }
                /* X = A[0..P+12) B' A[P+12..L-20) ; Y = A[0..P) B' A[P..L-22) : the insertion sits inside a verbatim stretch, after B in X, before B in Y */
                memcpy(X, A, (size_t)P + 12);
                memcpy(X + P + 12, B2, 12);
                t = L - 20 - (P + 12);
                memcpy(X + P + 24, A + P + 12, (size_t)t);
                X[P + 24 + t] = 0;
                memcpy(Y, A, (size_t)P);
                memcpy(Y + P, B2, 12);
                t = L - 22 - P;
                memcpy(Y + P + 12, A + P, (size_t)t);
                Y[P + 12 + t] = 0;
                if(layout == 0){
                        kx_set_add(&c->in, A, "dupA_1");
                        kx_set_add(&c->in, A, "dupA_2");
                        kx_set_add(&c->in, X, "relX");
                        kx_set_add(&c->in, Y, "relY");
                }else{
                        kx_set_add(&c->in, X, "relX");
                        kx_set_add(&c->in, A, "dupA_1");
                        kx_set_add(&c->in, Y, "relY");
                        kx_set_add(&c->in, A, "dupA_2");
                }
                return;
        }
        if(id >= NMANY + NLONG){
                /* A (2600..4200 residues) twice + two ~100-residue fragments of it, each with one inserted residue at a different
                   side of a low-complexity stretch: neither is contained in A, both are far closer to it in edits than in length */
                int k = (int)(id - NMANY - NLONG);
                int L = 2600 + 400 * (k % 5), protein = 1, layout = (k / 5) % 3, variant = k / 15;
                uint64_t st = 999 + (uint64_t)k + (uint64_t)vh_seed;
                static char A[4400], X[160], Y[160];
                const char* alpha = protein ? "LKWAVDEGST" : "ACGT";
                int at = 700 + 37 * k, o;
                c->many = 2000 + k;
                c->protein = protein;
                c->type = KALIGN_TYPE_UNDEFINED;
                sh_random_seq(&st, alpha, L, A);
                /* a low-complexity stretch inside the region the fragments come from */
                memcpy(A + at + 48, protein ? "LKKKKM" : "ACCCCG", 6);
                memcpy(X, A + at, 100);
                X[100] = 0;
                memcpy(Y, A + at, 100);
                Y[100] = 0;
                /* insert one residue (R, similar to K) just inside the stretch, at its left end in one fragment and at its right end in the
                   other: the gap this opens in A can sit at either end of the K run */
                o = variant ? 48 : 49;
                memmove(X + o + 1, X + o, strlen(X + o) + 1);
                X[o] = protein ? 'R' : 'T';
                o = variant ? 54 : 53;
                memmove(Y + o + 1, Y + o, strlen(Y + o) + 1);
                Y[o] = protein ? 'R' : 'T';
                if(layout == 0){
                        kx_set_add(&c->in, A, "dupA_1");
                        kx_set_add(&c->in, A, "dupA_2");
                        kx_set_add(&c->in, X, "fragX");
                        kx_set_add(&c->in, Y, "fragY");
                }else if(layout == 1){
                        kx_set_add(&c->in, X, "fragX");
                        kx_set_add(&c->in, A, "dupA_1");
                        kx_set_add(&c->in, Y, "fragY");
                        kx_set_add(&c->in, A, "dupA_2");
                }else{
                        kx_set_add(&c->in, A, "dupA_1");
                        kx_set_add(&c->in, X, "fragX");
                        kx_set_add(&c->in, A, "dupA_2");
                        kx_set_add(&c->in, Y, "fragY");
                        kx_set_add(&c->in, A, "dupA_3");
                }
                return;
        }
        if(id >= NMANY){
                /* long sets: A twice (at varying positions) + two shorter relatives whose substring edit distance to A is exactly
                   target (a multiple of 256), measured by oracle/editdist.h while the relatives are being built */
                int k = (int)(id - NMANY);
                int target = (k & 1) ? 512 : 256;
                int L = (k & 2) ? 1400 : 1000;
                int layout = (k >> 2) & 1;
                uint64_t st = 4711 + (uint64_t)k + (uint64_t)vh_seed;
                static char A[2048], X[2048], Y[2048];
                static uint8_t ua[2048], ux[2048];
                int r;
                c->many = 1000 + k;
                c->protein = 0;
                c->type = KALIGN_TYPE_UNDEFINED;
                sh_random_seq(&st, (k & 8) ? "AC" : ((k & 16) ? "ACG" : "ACGT"), L, A);      /* low-complexity sequences make gap placement ambiguous */
                for(r = 0; r < 2; r++){
                        char* R = r ? Y : X;
                        int skip = 5 + 9 * r, len = L - 21 - 31 * r, nsub = 0, pos = 2;
                        memcpy(R, A + skip, (size_t)len);
                        R[len] = 0;
                        for(i = 0; i < L; i++){
                                ua[i] = (uint8_t)A[i];
                        }
                        /* substitutions every 3rd position until the distance reaches the target exactly */
                        for(;;){
                                int d;
                                for(i = 0; i < len; i++){
                                        ux[i] = (uint8_t)R[i];
                                }
                                d = ed_substring(ua, L, ux, len);
                                if(d >= target || pos >= len){
                                        break;
                                }
                                {
                                        int need = target - d, q;
                                        for(q = 0; q < need && pos < len; q++, pos += 3){
                                                R[pos] = R[pos] == 'A' ? 'C' : 'A';
                                                if((k & 32) && q % 5 == 4 && pos + 1 < len){
                                                        /* a deletion now and then: indels give the relatives different gap structures */
                                                        memmove(R + pos, R + pos + 1, (size_t)(len - pos));
                                                        len--;
                                                }
                                                nsub++;
                                        }
                                }
                        }
                }
                if(layout == 0){
                        kx_set_add(&c->in, A, "dupA_1");
                        kx_set_add(&c->in, A, "dupA_2");
                        kx_set_add(&c->in, X, "relX");
                        kx_set_add(&c->in, Y, "relY");
                }else{
                        kx_set_add(&c->in, X, "relX");
                        kx_set_add(&c->in, A, "dupA_1");
                        kx_set_add(&c->in, Y, "relY");
                        kx_set_add(&c->in, A, "dupA_2");
                }
                return;
        }
        /* many-sequence sets: n in {20,37,64,99}; 3..5 distinct base sequences; assignment pattern; kind */
        {
                static const int NS[4] = {20, 37, 64, 99};
                int nn = NS[id % 4];
                int nd = 3 + (int)((id / 4) % 3);
                int kind = (int)((id / 12) % 2);
                int pat = (int)(id / 24);
                uint64_t st = 777 + id * 31 + (uint64_t)vh_seed;
                char bases[5][24];
                const char* alpha = kind ? "LKWDEGAV" : "ACGT";
                c->many = (int)id;
                c->protein = kind;
                c->type = KALIGN_TYPE_UNDEFINED;
                for(i = 0; i < nd; i++){
                        sh_random_seq(&st, alpha, 9 + 2 * i, bases[i]);
                }
                for(i = 0; i < nn; i++){
                        int b = pat ? (int)(sh_rng(&st) % (uint64_t)nd) : i % nd;
                        kx_set_addf(&c->in, bases[b], "m%02d", i);
                }
        }
}

void vh_describe(uint64_t id, int tier, char* buf, size_t n)
{
        struct dcase c;
        size_t o;
        int i;
        decode(id, tier, &c);
        o = (size_t)snprintf(buf, n, "type=%s %d sequences:", kx_type_name(c.type), c.in.n);
        for(i = 0; i < c.in.n && i < 8; i++){
                o += (size_t)snprintf(buf + o, n - o, " \"%.24s%s\"", c.in.seq[i], c.in.len[i] > 24 ? "..." : "");
        }
        kx_set_free(&c.in);
}

int vh_case(uint64_t id, int tier)
{
        struct dcase c;
        char** rows = NULL;
        int alen = 0, i, j, k, any_dup = 0, judged = 0;
        decode(id, tier, &c);
        /* is there a duplicated sequence at all? */
        for(i = 0; i < c.in.n && !any_dup; i++){
                for(j = i + 1; j < c.in.n; j++){
                        if(strcmp(c.in.seq[i], c.in.seq[j]) == 0){
                                any_dup = 1;
                                break;
                        }
                }
        }
        if(!any_dup){
                kx_set_free(&c.in);
                vh_count("no_duplicate_in_tuple");
                return VH_SKIP;
        }
        if(c.many >= 1000){
                vh_case_timeout = 120;
                alarm(120);
                vh_count("long_sets_with_relatives_at_distance_256k");
        }
        vh_count("library_calls");
        if(kx_kalign_arr(&c.in, 1, c.type, -1.0f, -1.0f, -1.0f, &rows, &alen) != OK){
                vh_count("base_rejected_type_not_admissible");
                kx_set_free(&c.in);
                return VH_SKIP;
        }
        for(i = 0; i < c.in.n; i++){
                int first = 1, premise = 1;
                for(j = 0; j < i; j++){
                        if(strcmp(c.in.seq[i], c.in.seq[j]) == 0){
                                first = 0;
                        }
                }
                if(!first){
                        continue;
                }
                /* premise for the duplicated sequence i (independent code, full and class-reduced alphabets) */
                for(k = 0; k < c.in.n; k++){
                        if(strcmp(c.in.seq[k], c.in.seq[i]) == 0){
                                continue;
                        }
                        if(ed_contained(c.in.seq[k], c.in.seq[i], c.protein) || ed_contained(c.in.seq[i], c.in.seq[k], c.protein)){
                                premise = 0;
                                break;
                        }
                }
                for(j = i + 1; j < c.in.n; j++){
                        if(strcmp(c.in.seq[i], c.in.seq[j]) != 0){
                                continue;
                        }
                        if(!premise){
                                vh_count("duplicates_outside_premise");
                                break;
                        }
                        judged = 1;
                        if(strcmp(rows[i], rows[j]) != 0){
                                /* the recorded finding (known_findings.txt): the duplicated sequence is longer than 1024 residues and another,
                                   different sequence longer than 1024 starts with the same 1024 residues - the exact distance looks at the
                                   first 1024 residues only (C11 states that cap), so such pairs are at distance 0 like the copies themselves */
                                int shared = 0;
                                if(c.in.len[i] > 1024){
                                        for(k = 0; k < c.in.n; k++){
                                                if(c.in.len[k] > 1024 && strcmp(c.in.seq[k], c.in.seq[i]) != 0 && memcmp(c.in.seq[k], c.in.seq[i], 1024) == 0){
                                                        shared = 1;
                                                }
                                        }
                                }
                                vh_fail(shared ? "sem:duplicate-rows-differ.first-1024-residues-shared-with-another-sequence" : "sem:duplicate-rows-differ",
                                        "copies %d and %d of \"%.200s\" come out as \"%.80s\" and \"%.80s\"", i, j, c.in.seq[i], rows[i], rows[j]);
                                i = c.in.n;
                                break;
                        }
                }
        }
        if(judged){
                vh_count("judged_sets");
                if(kx_has_gap(rows, c.in.n)){
                        vh_count("nontrivial_judged_with_gap");
                }
        }
        kx_free_rows(rows, c.in.n);
        kx_set_free(&c.in);
        return judged ? VH_OK : VH_SKIP;
}
