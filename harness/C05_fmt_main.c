/* The second command-line program (kalignfmt, src/run_reformat.c) with its main() renamed, compiled with the
   harness so that it is rebuilt from /repo's working tree with the sanitizers of the variant. */
#define main kalignfmt_cli_main
#include "run_reformat.c"
