/* C17, large alignments: kalign_msa_compare on alignments of 63..130 rows (the small harness stops at 4 rows), judged by the
   same independent score definition on the row strings.  Run on the OpenMP-free build and on the real libgomp with 4 threads. */
#include "vh.h"
#include "kx.h"
#include "shapes.h"

const char* vh_property = "C17";

static const int ROWS[] = {2, 63, 64, 65, 96, 130};
#define NROWS 6
#define NVAR 8
#define W 36

uint64_t vh_total(int tier) { (void)tier; return NROWS * NVAR * 2; }

/* row i of alignment `which` (0 reference, 1 test) of variant v: residues of a derived sequence with a gap run whose position
   depends on (i, v, which); both alignments hold the same residues in every row */
static void build(int rows, int v, int which, int protein, char** out)
{
        uint64_t st = 0xC17 + (uint64_t)v * 131 + (uint64_t)protein;
        const char* alpha = protein ? "LKWAVDEGST" : "ACGT";
        char base[64];
        int i, j;
        sh_random_seq(&st, alpha, W - 6, base);
        for(i = 0; i < rows; i++){
                int gl = 1 + (i + v) % 5, gp, o = 0, tail;
                /* reference: gap run at (i*7+v)%(W-10); test: shifted by (i % (v+2)) columns for every third row */
                gp = (i * 7 + v) % (W - 12);
                if(which && i % 3 == v % 3){
                        gp = (gp + 1 + i % (v + 2)) % (W - 12);
                }
                for(j = 0; j < W - 6; j++){
                        if(j == gp){
                                int q;
                                for(q = 0; q < gl; q++){
                                        out[i][o++] = '-';
                                }
                        }
                        out[i][o++] = (j == i % (W - 6)) ? alpha[(i / 3) % (int)strlen(alpha)] : base[j];
                }
                tail = W - o;
                while(tail-- > 0){
                        out[i][o++] = '-';
                }
                out[i][o] = 0;
        }
}

static double oracle(int rows, char** r, char** t)
{
        /* column of residue p of row i in both alignments */
        static int cr[130][W], ct[130][W], nres[130];
        static int atr[130][W + 1], att[130][W + 1];   /* residue index of row i at column c, or -1 */
        int i, j, p, c;
        long total = 0, same = 0;
        for(i = 0; i < rows; i++){
                int q = 0;
                for(c = 0; r[i][c]; c++){
                        atr[i][c] = -1;
                        if(r[i][c] != '-'){
                                atr[i][c] = q;
                                cr[i][q++] = c;
                        }
                }
                nres[i] = q;
                q = 0;
                for(c = 0; t[i][c]; c++){
                        att[i][c] = -1;
                        if(t[i][c] != '-'){
                                att[i][c] = q;
                                ct[i][q++] = c;
                        }
                }
        }
        for(i = 0; i < rows; i++){
                for(j = 0; j < rows; j++){
                        if(i == j){
                                continue;
                        }
                        for(p = 0; p < nres[i]; p++){
                                total++;
                                if(atr[j][cr[i][p]] == att[j][ct[i][p]]){
                                        same++;
                                }
                        }
                }
        }
        return 100.0 * (double)same / (double)total;
}

static void write_fasta(const char* path, int rows, char** a)
{
        FILE* f = fopen(path, "w");
        int i;
        for(i = 0; i < rows; i++){
                fprintf(f, ">row%03d\n%s\n", i, a[i]);
        }
        fclose(f);
}

void vh_describe(uint64_t id, int tier, char* buf, size_t n)
{
        (void)tier;
        snprintf(buf, n, "%d rows x %d columns, variant %d, %s; reference vs shifted test alignment and reference vs itself", ROWS[(id / 2) % NROWS], W,
                 (int)(id / 2 / NROWS), (id & 1) ? "protein" : "nucleotide");
}

int vh_case(uint64_t id, int tier)
{
        int protein = (int)(id & 1), rows = ROWS[(id / 2) % NROWS], v = (int)(id / 2 / NROWS), i, rep;
        char* r[130];
        char* t[130];
        struct msa* mr = NULL;
        struct msa* mt = NULL;
        const char* pr = vh_tmp("big_r.afa");
        const char* pt = vh_tmp("big_t.afa");
        (void)tier;
        for(i = 0; i < rows; i++){
                r[i] = malloc(W + 8);
                t[i] = malloc(W + 8);
        }
        build(rows, v, 0, protein, r);
        build(rows, v, 1, protein, t);
        write_fasta(pr, rows, r);
        write_fasta(pt, rows, t);
        if(kalign_read_input((char*)pr, &mr, 1) != OK || kalign_read_input((char*)pt, &mt, 1) != OK || !mr || !mt){
                vh_fail("sem:big-alignment-not-read", "an aligned FASTA file of %d rows could not be read", rows);
        }else{
                /* several rounds: on the libgomp leg a lost update need not show in every call */
                for(rep = 0; rep < 5; rep++){
                        float s1 = -1.0f, s2 = -1.0f;
                        double want = oracle(rows, r, t);
                        vh_add("library_calls", 2);
                        if(kalign_msa_compare(mr, mt, &s1) != OK || kalign_msa_compare(mr, mr, &s2) != OK){
                                vh_fail("sem:compare-failed", "kalign_msa_compare failed on two alignments of the same %d sequences", rows);
                                break;
                        }
                        if(fabs((double)s1 - want) > 1e-3 * (1.0 + want)){
                                vh_fail("sem:score-differs", "%d rows: score %.4f, definition gives %.4f (round %d)", rows, (double)s1, want, rep);
                                break;
                        }
                        if(fabs((double)s2 - 100.0) > 1e-3){
                                vh_fail("sem:identical-not-100", "%d rows: an alignment compared with itself scores %.4f (round %d)", rows, (double)s2, rep);
                                break;
                        }
                        if(want > 0.0 && want < 100.0){
                                vh_count("nontrivial_score_strictly_between");
                        }
                }
        }
        if(mr){
                kalign_free_msa(mr);
        }
        if(mt){
                kalign_free_msa(mt);
        }
        for(i = 0; i < rows; i++){
                free(r[i]);
                free(t[i]);
        }
        return VH_OK;
}
