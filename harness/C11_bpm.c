/* C11 - the bit-parallel distance kernels equal the substring edit distance. */
#include "vh.h"
#include <stdint.h>
#include "bpm.h"
#include "sequence_distance.h"
#include "msa_struct.h"
#include "msa_op.h"
#include "msa_alloc.h"
#include "alphabet.h"
#include "tldevel.h"
#include "../oracle/editdist.h"

const char* vh_property = "C11";

int bpm_block_w8(const uint8_t* t, const uint8_t* p, int n, int m);

void vh_init(int tier)
{
        (void)tier;
#ifdef HAVE_AVX2
        set_broadcast_mask();   /* documented precondition of bpm_256 */
#endif
}

static int NA(int tier) { return tier ? 13 : 11; }      /* binary, true width and w8 */
static int NC(int tier) { return tier ? 8 : 6; }        /* ternary */
static const int DLEN[] = {63, 64, 65, 127, 128, 129, 191, 192, 193, 1023, 1024, 1025, 1100, 3000};
#define ND 14
#define DSLICES 16

/* section sizes: a case = (n, m, text); all patterns of length m are run inside */
static uint64_t secA(int tier)
{
        uint64_t t = 0;
        int n;
        for(n = 1; n <= NA(tier); n++){
                t += (uint64_t)n << n;
        }
        return t;
}
static uint64_t pow3(int e) { uint64_t r = 1; while(e-- > 0){ r *= 3; } return r; }
static uint64_t secC(int tier)
{
        uint64_t t = 0;
        int n;
        for(n = 1; n <= NC(tier); n++){
                t += (uint64_t)n * pow3(n);
        }
        return t;
}
static uint64_t secE(int tier) { return tier ? (1u << 18) : (1u << 14); }
/* F: the only user of the kernel, calc_distance(), on deterministic pairs whose distance is far above 255 */
static const int FLEN[8][2] = {{300, 280}, {520, 260}, {600, 600}, {700, 513}, {1100, 900}, {1100, 1100}, {2000, 1500}, {257, 256}};
#define NF (8 * 6)
/* G: the distance matrices d_estimation() builds (exact mode and anchor mode): every entry = substring edit distance + a length term in [0,1) */
#define NG 6
/* H: texts with TWO approximate occurrences of a multi-block pattern (a poorer and a better one, in both orders, separated by unrelated symbols):
   the band of active blocks has to shrink after the first hit and grow again for the second */
static const int HM[7] = {70, 100, 130, 200, 259, 500, 1000};
static const int HM8[4] = {20, 30, 40, 60};
#define NH ((7 + 4) * 3 * 2 * 2 * 2)

uint64_t vh_total(int tier)
{
        return secA(tier) + secC(tier) + (uint64_t)ND * DSLICES + secE(tier) + NF + NG + NH;
}

static void judge(const char* which, int got, int want, const uint8_t* t, int n, const uint8_t* p, int m)
{
        if(got != want){
                char ts[80], ps[80];
                int i;
                for(i = 0; i < n && i < 70; i++){
                        ts[i] = (char)('0' + t[i] % 10);
                }
                ts[i] = 0;
                for(i = 0; i < m && i < 70; i++){
                        ps[i] = (char)('0' + p[i] % 10);
                }
                ps[i] = 0;
                {
                        char sig[64];
                        snprintf(sig, sizeof sig, "sem:%s-mismatch", which);
                        vh_fail(sig, "%s returns %d, substring edit distance is %d (n=%d m=%d text=%s%s pattern=%s%s)", which, got, want, n, m, ts,
                                n > 70 ? "..." : "", ps, m > 70 ? "..." : "");
                }
        }
}

static int check_all(const uint8_t* t, int n, const uint8_t* p, int m, int w8)
{
        int mm = m > 1024 ? 1024 : m;
        int want = ed_substring(t, n, p, mm);
        int before = VH->fails_in_case;
        vh_count("library_calls");
        judge("bpm_block", bpm_block(t, p, n, m), want, t, n, p, m);
        if(m <= 63){
                judge("bpm", (int)bpm(t, p, n, m), want, t, n, p, m);
        }
#ifdef HAVE_AVX2
        if(m <= 255){
                judge("bpm_256", (int)bpm_256(t, p, n, m), want, t, n, p, m);
        }
#endif
        if(w8 && m <= 128){
                judge("bpm_block_w8", bpm_block_w8(t, p, n, m), want, t, n, p, m);
        }
        if(want > 0 && want < mm){
                vh_count("nontrivial_distance_strictly_between");
        }
        return VH->fails_in_case != before;
}

static void det_text(int len, uint8_t* out, uint64_t seed)
{
        uint64_t s = 0x1234567ULL + seed * 977 + (uint64_t)len;
        int i;
        for(i = 0; i < len; i++){
                s = s * 6364136223846793005ULL + 1442695040888963407ULL;
                out[i] = (uint8_t)((s >> 33) % 13);
        }
}

void vh_describe(uint64_t id, int tier, char* buf, size_t n)
{
        if(id < secA(tier)){
                snprintf(buf, n, "A: binary text #%llu with all patterns of one length (64-bit words, bpm, bpm_256 and the 8-bit instantiation)", (unsigned long long)id);
        }else if(id < secA(tier) + secC(tier)){
                snprintf(buf, n, "C: ternary text #%llu with all patterns of one length", (unsigned long long)(id - secA(tier)));
        }else if(id < secA(tier) + secC(tier) + ND * DSLICES){
                uint64_t k = id - secA(tier) - secC(tier);
                snprintf(buf, n, "D: one-edit family around a 13-symbol text of length %d (slice %d/%d)", DLEN[k / DSLICES], (int)(k % DSLICES), DSLICES);
        }else if(id < secA(tier) + secC(tier) + ND * DSLICES + secE(tier)){
                snprintf(buf, n, "E: one-edit family around binary text #%llu of length %d at 8-bit width (3 blocks)",
                         (unsigned long long)(id - secA(tier) - secC(tier) - ND * DSLICES), tier ? 18 : 14);
        }else if(id >= secA(tier) + secC(tier) + ND * DSLICES + secE(tier) + NF + NG){
                snprintf(buf, n, "H: two-occurrence text #%llu", (unsigned long long)(id - secA(tier) - secC(tier) - ND * DSLICES - secE(tier) - NF - NG));
        }else if(id >= secA(tier) + secC(tier) + ND * DSLICES + secE(tier) + NF){
                snprintf(buf, n, "G: d_estimation distance matrices on a deterministic set #%llu (lengths 120..2600)", (unsigned long long)(id - secA(tier) - secC(tier) - ND * DSLICES - secE(tier) - NF));
        }else{
                uint64_t k = id - secA(tier) - secC(tier) - ND * DSLICES - secE(tier);
                snprintf(buf, n, "F: calc_distance on a deterministic pair of lengths %d and %d (seed %d), both argument orders", FLEN[k / 6][0], FLEN[k / 6][1], (int)(k % 6));
        }
}

static void family(const uint8_t* text, int n, int stride, int slice, int nslices, int w8, int sigma)
{
        /* every substring of length n-2..n, with every single substitution / insertion / deletion at every position */
        static uint8_t pat[4096];
        int sublen, start, pos, kind;
        long member = 0;
        for(sublen = n - 2; sublen <= n; sublen++){
                if(sublen < 1){
                        continue;
                }
                for(start = 0; start + sublen <= n; start++){
                        for(kind = 0; kind < 4; kind++){
                                int npos = (kind == 0) ? 1 : (kind == 2 ? sublen + 1 : sublen);
                                for(pos = 0; pos < npos; pos += (kind == 0 ? 1 : stride), member++){
                                        int m = 0, i;
                                        if(member % nslices != slice){
                                                continue;
                                        }
                                        for(i = 0; i < sublen; i++){
                                                if(kind == 2 && i == pos){
                                                        pat[m++] = (uint8_t)((text[start + i] + 5) % sigma);
                                                }
                                                if(kind == 3 && i == pos){
                                                        continue;
                                                }
                                                pat[m++] = (kind == 1 && i == pos) ? (uint8_t)((text[start + i] + 1) % sigma) : text[start + i];
                                        }
                                        if(kind == 2 && pos == sublen){
                                                pat[m++] = 3 % sigma;
                                        }
                                        if(m < 1 || m > n){
                                                continue;
                                        }
                                        if(check_all(text, n, pat, m, w8)){
                                                return;
                                        }
                                }
                        }
                }
        }
}

int vh_case(uint64_t id, int tier)
{
        static uint8_t t[4096], p[64];
        if(id < secA(tier)){
                int n, m;
                uint64_t x = id, pb;
                for(n = 1; x >= ((uint64_t)n << n); n++){
                        x -= (uint64_t)n << n;
                }
                m = (int)(x >> n) + 1;
                x &= (1ULL << n) - 1;
                for(int i = 0; i < n; i++){
                        t[i] = (uint8_t)((x >> i) & 1);
                }
                for(pb = 0; pb < (1ULL << m); pb++){
                        for(int i = 0; i < m; i++){
                                p[i] = (uint8_t)((pb >> i) & 1);
                        }
                        if(check_all(t, n, p, m, 1)){
                                break;
                        }
                }
                if(m > 8){
                        vh_count("multi_block_cases_w8");
                }
        }else if(id < secA(tier) + secC(tier)){
                int n, m;
                uint64_t x = id - secA(tier), pb, np;
                for(n = 1; x >= (uint64_t)n * pow3(n); n++){
                        x -= (uint64_t)n * pow3(n);
                }
                m = (int)(x / pow3(n)) + 1;
                x %= pow3(n);
                for(int i = 0; i < n; i++){
                        t[i] = (uint8_t)(x % 3);
                        x /= 3;
                }
                np = pow3(m);
                for(pb = 0; pb < np; pb++){
                        uint64_t y = pb;
                        for(int i = 0; i < m; i++){
                                p[i] = (uint8_t)(y % 3);
                                y /= 3;
                        }
                        if(check_all(t, n, p, m, 1)){
                                break;
                        }
                }
        }else if(id < secA(tier) + secC(tier) + ND * DSLICES){
                uint64_t k = id - secA(tier) - secC(tier);
                int len = DLEN[k / DSLICES];
                int stride = 1;
                if(!tier){
                        stride = len >= 3000 ? 97 : (len >= 1000 ? 13 : 1);
                }else{
                        stride = len >= 3000 ? 11 : 1;
                }
                vh_case_timeout = 600;
                alarm(600);
                det_text(len, t, (uint64_t)vh_seed);
                family(t, len, stride, (int)(k % DSLICES), DSLICES, len <= 128, 13);
                vh_count("block_boundary_family_cases");
        }else if(id >= secA(tier) + secC(tier) + ND * DSLICES + secE(tier) + NF + NG){
                int k = (int)(id - secA(tier) - secC(tier) - ND * DSLICES - secE(tier) - NF - NG);
                int order = k % 2, e2 = ((k / 2) % 2) ? 2 : 0, e1 = ((k / 4) % 2) ? 12 : 6, sepi = (k / 8) % 3, mi = k / 24;
                int w8 = mi >= 7, m = w8 ? HM8[mi - 7] : HM[mi];
                int sep = w8 ? (const int[]){12, 20, 40}[sepi] : (const int[]){100, 150, 300}[sepi];
                int sigma = w8 ? 4 : 13, n = 0, i, q;
                static uint8_t pat[1100], c1[1100], c2[1100], text[4096];
                uint64_t st = 606 + (uint64_t)k;
                if(w8){
                        e1 = e1 / 3;
                }
                for(i = 0; i < m; i++){
                        st = st * 6364136223846793005ULL + 1442695040888963407ULL;
                        pat[i] = (uint8_t)((st >> 33) % (uint64_t)sigma);
                }
                memcpy(c1, pat, (size_t)m);
                memcpy(c2, pat, (size_t)m);
                for(q = 0; q < e1; q++){
                        c1[(q * 7 + 3) % m] = (uint8_t)((c1[(q * 7 + 3) % m] + 1) % sigma);      /* the poorer copy */
                }
                for(q = 0; q < e2; q++){
                        c2[(q * 11 + 5) % m] = (uint8_t)((c2[(q * 11 + 5) % m] + 2) % sigma);    /* the better copy */
                }
                for(i = 0; i < 20; i++){
                        st = st * 6364136223846793005ULL + 1442695040888963407ULL;
                        text[n++] = (uint8_t)((st >> 33) % (uint64_t)sigma);
                }
                memcpy(text + n, order ? c2 : c1, (size_t)m);
                n += m;
                for(i = 0; i < sep; i++){
                        st = st * 6364136223846793005ULL + 1442695040888963407ULL;
                        text[n++] = (uint8_t)((st >> 33) % (uint64_t)sigma);
                }
                memcpy(text + n, order ? c1 : c2, (size_t)m);
                n += m;
                for(i = 0; i < 20; i++){
                        st = st * 6364136223846793005ULL + 1442695040888963407ULL;
                        text[n++] = (uint8_t)((st >> 33) % (uint64_t)sigma);
                }
                check_all(text, n, pat, m, w8);
                vh_count("two_occurrence_texts");
        }else if(id >= secA(tier) + secC(tier) + ND * DSLICES + secE(tier) + NF){
                int k = (int)(id - secA(tier) - secC(tier) - ND * DSLICES - secE(tier) - NF);
                static const int LENS[6][4] = {{2600, 2600, 101, 120}, {1200, 1100, 300, 900}, {2200, 400, 2100, 150}, {600, 600, 600, 590}, {5000, 2500, 1000, 200}, {130, 120, 125, 128}};
                struct msa* m = NULL;
                char* seq[4];
                int len[4], i, j, samples[4] = {0, 1, 2, 3};
                float** dm;
                static char buf4[4][5200];
                uint64_t st = 31 + (uint64_t)k;
                for(i = 0; i < 4; i++){
                        int q;
                        len[i] = LENS[k][i];
                        for(q = 0; q < len[i]; q++){
                                st = st * 6364136223846793005ULL + 1442695040888963407ULL;
                                buf4[i][q] = "ACGT"[(st >> 33) & 3];
                        }
                        if(i == 1 && len[1] == len[0]){
                                memcpy(buf4[1], buf4[0], (size_t)len[0]);      /* a duplicate */
                        }
                        if(i >= 2 && len[i] < len[0]){
                                memcpy(buf4[i], buf4[0] + 17, (size_t)len[i]);   /* a fragment of the first sequence ... */
                                buf4[i][len[i] / 2] = buf4[i][len[i] / 2] == 'A' ? 'C' : 'A';    /* ... with one substitution */
                        }
                        buf4[i][len[i]] = 0;
                        seq[i] = buf4[i];
                }
                vh_case_timeout = 120;
                alarm(120);
                if(kalign_arr_to_msa(seq, len, 4, &m) != OK || convert_msa_to_internal(m, ALPHA_defDNA) != OK){
                        vh_fail("sem:setup-failed", "could not build the msa");
                        return VH_OK;
                }
                vh_count("library_calls");
                for(int mode = 0; mode < 2; mode++){
                        dm = d_estimation(m, samples, 4, mode);         /* mode 1: exact pairwise matrix (< 100 sequences); 0: sequence-to-anchor matrix */
                        if(!dm){
                                vh_fail("sem:d_estimation-failed", "d_estimation returned NULL");
                                break;
                        }
                        for(i = 0; i < 4; i++){
                                for(j = 0; j < 4; j++){
                                        const uint8_t* t = m->sequences[len[i] > len[j] ? i : j]->s;
                                        const uint8_t* p = m->sequences[len[i] > len[j] ? j : i]->s;
                                        int lt = len[i] > len[j] ? len[i] : len[j], lp = len[i] > len[j] ? len[j] : len[i];
                                        int ed = ed_substring(t, lt, p, lp > 1024 ? 1024 : lp);
                                        double extra = (double)dm[i][j] - (double)ed;
                                        if(!(extra >= -1e-3 && extra < 1.0)){
                                                vh_fail("sem:distance-matrix-entry", "%s matrix: d[%d][%d] = %g for lengths %d and %d, edit distance %d: the length term is %g, not in [0,1)",
                                                        mode ? "pairwise" : "anchor", i, j, (double)dm[i][j], len[i], len[j], ed, extra);
                                                i = 4;
                                                break;
                                        }
                                }
                        }
                        /* the matrices are the library's own allocations (galloc / _mm_malloc): left to the end of the worker process */
                }
                vh_count("distance_matrices_checked");
                kalign_free_msa(m);
        }else if(id >= secA(tier) + secC(tier) + ND * DSLICES + secE(tier)){
                uint64_t k = id - secA(tier) - secC(tier) - ND * DSLICES - secE(tier);
                static uint8_t a[4096], b[4096];
                int la = FLEN[k / 6][0], lb = FLEN[k / 6][1], want;
                float d1, d2;
                det_text(la, a, 1000 + k);
                det_text(lb, b, 2000 + k);
                if(k % 2){
                        /* related pair: b is a with every 3rd symbol changed (distance about lb/3, well above 255 for the long ones) */
                        int i;
                        for(i = 0; i < lb; i++){
                                b[i] = (i % 3 == 0) ? (uint8_t)((a[i] + 1) % 13) : a[i];
                        }
                }
                want = ed_substring(a, la, b, lb > 1024 ? 1024 : lb);
                if(la == lb){
                        /* equal lengths: the implementation takes the second argument as text */
                        want = ed_substring(b, lb, a, la > 1024 ? 1024 : la);
                }
                d1 = calc_distance(a, b, la, lb);
                vh_count("library_calls");
                if((int)d1 != want){
                        vh_fail("sem:calc_distance-mismatch", "calc_distance returns %g for lengths %d/%d, substring edit distance is %d", (double)d1, la, lb, want);
                }
                if(la != lb){
                        d2 = calc_distance(b, a, lb, la);
                        if((int)d2 != want){
                                vh_fail("sem:calc_distance-mismatch", "calc_distance (swapped arguments) returns %g for lengths %d/%d, substring edit distance is %d", (double)d2, lb, la, want);
                        }
                }
                if(want > 255){
                        vh_count("distances_above_255");
                        vh_count("nontrivial_distance_strictly_between");
                }
        }else{
                uint64_t x = id - secA(tier) - secC(tier) - ND * DSLICES;
                int n = tier ? 18 : 14;
                for(int i = 0; i < n; i++){
                        t[i] = (uint8_t)((x >> i) & 1);
                }
                family(t, n, 1, 0, 1, 1, 2);
        }
        return VH_OK;
}
