/* C15 - written alignment files are well-formed and correctly labelled (independent parsers). */
#include "vh.h"
#include "kx.h"
#include "alnfam.h"

const char* vh_property = "C15";
static const char* FMT[3] = {"fasta", "clu", "msf"};
#define NBIGROWS 2      /* writers' line buffer growth: > 1024 output lines */

uint64_t vh_total(int tier) { return (af_count(tier) + NBIGROWS) * 3 * 2; }

void vh_describe(uint64_t id, int tier, char* buf, size_t n)
{
        int tostdout = (int)(id % 2), f = (int)((id / 2) % 3);
        uint64_t k = id / 6;
        if(k >= af_count(tier)){
                snprintf(buf, n, "large alignment #%d (more than 1024 output lines) written as %s to %s", (int)(k - af_count(tier)), FMT[f], tostdout ? "stdout" : "a file");
        }else{
                snprintf(buf, n, "alignment family member %llu (%s) written as %s to %s", (unsigned long long)k,
                         k < af_count_run() ? "produced by a run" : "read from an aligned FASTA file", FMT[f], tostdout ? "stdout" : "a file");
        }
}

static int build_big(int which, struct af_member* a)
{
        struct kx_set in;
        int i, rows = which ? 300 : 1100, w = which ? 250 : 70;
        uint64_t st = 99 + (uint64_t)which;
        static char base[512], tmp[512];
        memset(a, 0, sizeof *a);
        kx_set_init(&in);
        sh_random_seq(&st, which ? "LKWAVDEGST" : "ACGT", w, base);
        for(i = 0; i < rows; i++){
                sh_derive(&st, which ? "LKWAVDEGST" : "ACGT", base, w, w - (i % 3), tmp);
                kx_set_addf(&in, tmp, "row%04d", i);
        }
        a->m = kx_make_msa(&in);
        a->protein = which;
        if(a->m && kalign_run(a->m, 1, KALIGN_TYPE_UNDEFINED, -1, -1, -1) == OK){
                a->n = a->m->numseq;
                kx_msa_rows(a->m, &a->rows, &a->names);
                a->width = a->m->alnlen;
                a->valid = 1;
        }
        kx_set_free(&in);
        return a->valid;
}

int vh_case(uint64_t id, int tier)
{
        int tostdout = (int)(id % 2), f = (int)((id / 2) % 3);
        uint64_t k = id / 6;
        struct af_member a;
        const char* out = vh_tmp("c15.out");
        int rc, i, b;
        char* data;
        size_t dl;
        struct fp_aln p;
        if(k >= af_count(tier)){
                vh_case_timeout = 200;
                alarm(200);
                b = build_big((int)(k - af_count(tier)), &a);
        }else{
                b = af_build(k, vh_seed, vh_tmpdir, &a);
        }
        if(b == 0){
                af_free(&a);
                return VH_SKIP;
        }
        if(b < 0){
                vh_fail("sem:aligned-file-not-read", "a legal aligned FASTA file could not be read");
                return VH_OK;
        }
        unlink(out);
        vh_count("library_calls");
        if(tostdout){
                int saved = dup(1);
                int fd = open(out, O_WRONLY | O_CREAT | O_TRUNC, 0600);
                fflush(stdout);
                dup2(fd, 1);
                rc = kalign_write_msa(a.m, NULL, (char*)FMT[f]);
                fflush(stdout);
                dup2(saved, 1);
                close(fd);
                close(saved);
        }else{
                rc = kalign_write_msa(a.m, (char*)out, (char*)FMT[f]);
        }
        if(rc != OK){
                vh_fail(a.from_file ? "sem:write-refuses-read-alignment" : "sem:write-failed", "kalign_write_msa(%s) fails on %s", FMT[f],
                        a.from_file ? "an alignment read from a file" : "an alignment it produced");
                af_free(&a);
                return VH_OK;
        }
        data = vh_read_file(out, &dl);
        if(!data){
                vh_fail("sem:no-output", "no output");
                af_free(&a);
                return VH_OK;
        }
        if(f == 0){
                rc = fp_parse_fasta(data, &p);
        }else if(f == 1){
                rc = fp_parse_clustal(data, &p);
        }else{
                rc = fp_parse_msf(data, &p);
        }
        if(rc){
                vh_fail("sem:unparsable", "%s output cannot be parsed: %s", FMT[f], p.err);
        }else{
                int bad = 0;
                if(p.n != a.n){
                        vh_fail("sem:row-count", "%s: %d rows in the file, %d in the alignment", FMT[f], p.n, a.n);
                        bad = 1;
                }
                for(i = 0; i < a.n && !bad; i++){
                        if(strcmp(p.row[i], a.rows[i]) != 0){
                                vh_fail("sem:rows-differ", "%s: row %d in the file is \"%.70s\", in the alignment \"%.70s\"", FMT[f], i, p.row[i], a.rows[i]);
                                bad = 1;
                        }else if(strcmp(p.name[i], a.names[i]) != 0){
                                vh_fail("sem:names-differ", "%s: name %d in the file is \"%.70s\", in the alignment \"%.70s\"", FMT[f], i, p.name[i], a.names[i]);
                                bad = 1;
                        }
                }
                if(!bad && !p.header_ok){
                        vh_fail("sem:header", "%s: header missing or malformed", FMT[f]);
                }
                if(!bad && f == 0 && p.bad_wrap){
                        vh_fail("sem:fasta-wrap", "FASTA rows are not wrapped at exactly 60 columns (width %d)", a.width);
                }
                if(!bad && f > 0 && (p.bad_block || p.max_line > 60)){
                        vh_fail("sem:blocks", "%s: %d malformed block(s), longest segment %d (width %d, %d blocks)", FMT[f], p.bad_block, p.max_line, a.width, p.blocks);
                }
                if(!bad && f > 0 && p.blocks != (a.width + 59) / 60){
                        vh_fail("sem:block-count", "%s: %d blocks for width %d", FMT[f], p.blocks, a.width);
                }
                if(!bad && f == 2){
                        int sum = 0;
                        if(p.msf_len != a.width){
                                vh_fail("sem:msf.len", "MSF: header declares length %d, true alignment length %d", p.msf_len, a.width);
                        }
                        for(i = 0; i < a.n; i++){
                                int chk = fp_gcg_checksum(p.row[i], (int)strlen(p.row[i]));
                                sum = (sum + chk) % 10000;
                                if(p.decl_len[i] != a.width){
                                        vh_fail("sem:msf.seq-len", "MSF: Len: of row %d is %d, true length %d", i, p.decl_len[i], a.width);
                                        break;
                                }
                                if(p.decl_check[i] != chk){
                                        vh_fail("sem:msf.seq-check", "MSF: Check: of row %d is %d, GCG checksum of the row as written is %d", i, p.decl_check[i], chk);
                                        break;
                                }
                        }
                        if(p.msf_check != sum){
                                vh_fail("sem:msf.total-check", "MSF: total Check: %d, sum of the row checksums mod 10000 is %d", p.msf_check, sum);
                        }
                        if(p.msf_type != (a.protein ? 'P' : 'N')){
                                vh_fail("sem:msf.type", "MSF: Type: %c for %s sequences", p.msf_type, a.protein ? "protein" : "nucleotide");
                        }
                        if(strcmp(p.msf_bang, a.protein ? "AA" : "NA") != 0){
                                vh_fail("sem:msf.bang", "MSF: first line says !!%s_MULTIPLE_ALIGNMENT for %s sequences", p.msf_bang, a.protein ? "protein" : "nucleotide");
                        }
                }
                if(a.width % 60 == 0){
                        vh_count("width_multiple_of_60");
                }
                if(a.width > 60){
                        vh_count("nontrivial_multi_block");
                }
        }
        fp_free(&p);
        free(data);
        af_free(&a);
        return VH_OK;
}
