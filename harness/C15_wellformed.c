/* C15 - written alignment files are well-formed and correctly labelled (independent parsers). */
#include "vh.h"
#include "kx.h"
#include "alnfam.h"

const char* vh_property = "C15";
static const char* FMT[3] = {"fasta", "clu", "msf"};
#define NBIGROWS 8      /* writers' line buffer growth: > 1024 output lines: two run-produced alignments, and alignments of 1011..1016 rows x 70 columns
                           read from a file (header + rows + block separators land on the 1024-line growth step of the writers for some of them) */

/* ragged read inputs: 2..3 records, 1..3 residues each, 0..1 leading and 0..2 trailing gap characters, read from a FASTA file and
   written without a run (what kalignfmt does): the writer may refuse; a file it does write must be well-formed */
#define ROPT 18
static uint64_t nragged(void) { return (uint64_t)(ROPT * ROPT + ROPT * ROPT * ROPT) * 3; }
static uint64_t nbase(int tier) { return (af_count(tier) + NBIGROWS) * 3 * 2; }
uint64_t vh_total(int tier) { return nbase(tier) + nragged(); }

static int ragged_decode(uint64_t id, char rows[3][16], int* f)
{
        int n, i;
        *f = (int)(id % 3);
        id /= 3;
        if(id < ROPT * ROPT){
                n = 2;
        }else{
                id -= ROPT * ROPT;
                n = 3;
        }
        for(i = 0; i < n; i++){
                int o = (int)(id % ROPT), len = 1 + o % 3, lead = (o / 3) % 2, trail = o / 6, q, k = 0;
                id /= ROPT;
                for(q = 0; q < lead; q++){
                        rows[i][k++] = '-';
                }
                for(q = 0; q < len; q++){
                        rows[i][k++] = "ACGT"[(q + i) % 4];
                }
                for(q = 0; q < trail; q++){
                        rows[i][k++] = '-';
                }
                rows[i][k] = 0;
        }
        return n;
}

static int ragged_case(uint64_t id)
{
        char rows[3][16], txt[256];
        int f, n = ragged_decode(id, rows, &f), i, rc;
        size_t o = 0, dl;
        const char* in = vh_tmp("c15r.in");
        const char* out = vh_tmp("c15r.out");
        struct msa* m = NULL;
        char* data;
        struct fp_aln p;
        for(i = 0; i < n; i++){
                o += (size_t)snprintf(txt + o, sizeof txt - o, ">r%d\n%s\n", i, rows[i]);
        }
        vh_write_file(in, txt, o);
        unlink(out);
        vh_count("library_calls");
        if(kalign_read_input((char*)in, &m, 1) != OK || !m){
                vh_count("ragged_input_not_read");
                if(m){
                        kalign_free_msa(m);
                }
                return VH_SKIP;
        }
        rc = kalign_write_msa(m, (char*)out, (char*)FMT[f]);
        kalign_free_msa(m);
        if(rc != OK){
                vh_count("ragged_input_refused_by_the_writer");
                return VH_OK;
        }
        data = vh_read_file(out, &dl);
        if(!data){
                vh_fail("sem:no-output", "the writer returned OK without writing a file");
                return VH_OK;
        }
        if(memchr(data, 0, dl)){
                vh_fail("sem:nul-in-output", "%s: the file written contains a NUL byte", FMT[f]);
                free(data);
                return VH_OK;
        }
        rc = f == 0 ? fp_parse_fasta(data, &p) : (f == 1 ? fp_parse_clustal(data, &p) : fp_parse_msf(data, &p));
        if(rc){
                vh_fail("sem:unparsable", "%s output cannot be parsed: %s", FMT[f], p.err);
        }else if(p.n != n){
                vh_fail("sem:row-count", "%s: %d rows in the file, %d records read", FMT[f], p.n, n);
        }else{
                int w = (int)strlen(p.row[0]), bad = 0;
                for(i = 0; i < n && !bad; i++){
                        char a[16], b[16];
                        int x = 0, y = 0;
                        const char* c;
                        if((int)strlen(p.row[i]) != w){
                                vh_fail("sem:ragged-rows-written", "%s: row %d has %d columns, row 0 has %d", FMT[f], i, (int)strlen(p.row[i]), w);
                                bad = 1;
                                break;
                        }
                        for(c = p.row[i]; *c && x < 15; c++){
                                if(*c != '-'){
                                        a[x++] = *c;
                                }
                        }
                        a[x] = 0;
                        for(c = rows[i]; *c; c++){
                                if(*c != '-'){
                                        b[y++] = *c;
                                }
                        }
                        b[y] = 0;
                        if(strcmp(a, b) != 0){
                                vh_fail("sem:rows-differ", "%s: row %d holds \"%s\", the record read holds \"%s\"", FMT[f], i, a, b);
                                bad = 1;
                        }
                }
                if(!bad && f == 2){
                        int sum = 0;
                        if(p.msf_len != w){
                                vh_fail("sem:msf.len", "MSF: header declares length %d, rows have %d columns", p.msf_len, w);
                        }
                        for(i = 0; i < n; i++){
                                int chk = fp_gcg_checksum(p.row[i], w);
                                sum = (sum + chk) % 10000;
                                if(p.decl_len[i] != w || p.decl_check[i] != chk){
                                        vh_fail("sem:msf.seq-check", "MSF: row %d declared Len %d Check %d, written row has %d columns and checksum %d", i, p.decl_len[i], p.decl_check[i], w, chk);
                                        break;
                                }
                        }
                        if(p.msf_check != sum){
                                vh_fail("sem:msf.total-check", "MSF: total Check: %d, sum of the row checksums mod 10000 is %d", p.msf_check, sum);
                        }
                }
                if(!bad){
                        vh_count("ragged_inputs_written");
                }
        }
        fp_free(&p);
        free(data);
        return VH_OK;
}

void vh_describe(uint64_t id, int tier, char* buf, size_t n)
{
        int tostdout = (int)(id % 2), f = (int)((id / 2) % 3);
        uint64_t k = id / 6;
        if(id >= nbase(tier)){
                char rows[3][16];
                int ff, nn = ragged_decode(id - nbase(tier), rows, &ff);
                snprintf(buf, n, "records read from FASTA and written as %s without a run: \"%s\" \"%s\" \"%s\"", FMT[ff], rows[0], rows[1], nn > 2 ? rows[2] : "");
                return;
        }
        if(k >= af_count(tier)){
                snprintf(buf, n, "large alignment #%d (more than 1024 output lines) written as %s to %s", (int)(k - af_count(tier)), FMT[f], tostdout ? "stdout" : "a file");
        }else{
                snprintf(buf, n, "alignment family member %llu (%s) written as %s to %s", (unsigned long long)k,
                         k < af_count_run() ? "produced by a run" : "read from an aligned FASTA file", FMT[f], tostdout ? "stdout" : "a file");
        }
}

static int build_big_file(int rows, struct af_member* a)
{
        static char base[80];
        char path[400];
        uint64_t st = 4040 + (uint64_t)rows;
        FILE* f;
        int i, j, w = 70;
        memset(a, 0, sizeof *a);
        sh_random_seq(&st, "ACGT", w, base);
        a->n = rows;
        a->rows = malloc(sizeof(char*) * (size_t)rows);
        a->names = malloc(sizeof(char*) * (size_t)rows);
        snprintf(path, sizeof path, "%s/af_bigfile.afa", vh_tmpdir);
        f = fopen(path, "w");
        for(i = 0; i < rows; i++){
                char nm[16];
                a->rows[i] = malloc((size_t)w + 1);
                for(j = 0; j < w; j++){
                        a->rows[i][j] = (j == 5 + i % 60) ? '-' : ((j == i % 70) ? "ACGT"[(i / 70) % 4] : base[j]);
                }
                a->rows[i][w] = 0;
                snprintf(nm, sizeof nm, "r%04d", i);
                a->names[i] = strdup(nm);
                fprintf(f, ">%s\n%s\n", nm, a->rows[i]);
        }
        fclose(f);
        a->width = w;
        a->from_file = 1;
        a->protein = 0;
        if(kalign_read_input(path, &a->m, 1) != OK || !a->m){
                a->m = NULL;
                return -1;
        }
        a->valid = 1;
        return 1;
}

static int build_big(int which, struct af_member* a)
{
        struct kx_set in;
        int i, rows = which ? 300 : 1100, w = which ? 250 : 70;
        uint64_t st = 99 + (uint64_t)which;
        static char base[512], tmp[512];
        memset(a, 0, sizeof *a);
        kx_set_init(&in);
        sh_random_seq(&st, which ? "LKWAVDEGST" : "ACGT", w, base);
        for(i = 0; i < rows; i++){
                sh_derive(&st, which ? "LKWAVDEGST" : "ACGT", base, w, w - (i % 3), tmp);
                kx_set_addf(&in, tmp, "row%04d", i);
        }
        a->m = kx_make_msa(&in);
        a->protein = which;
        if(a->m && kalign_run(a->m, 1, KALIGN_TYPE_UNDEFINED, -1, -1, -1) == OK){
                a->n = a->m->numseq;
                kx_msa_rows(a->m, &a->rows, &a->names);
                a->width = a->m->alnlen;
                a->valid = 1;
        }
        kx_set_free(&in);
        return a->valid;
}

int vh_case(uint64_t id, int tier)
{
        int tostdout = (int)(id % 2), f = (int)((id / 2) % 3);
        uint64_t k = id / 6;
        struct af_member a;
        const char* out = vh_tmp("c15.out");
        int rc, i, b;
        char* data;
        size_t dl;
        struct fp_aln p;
        if(id >= nbase(tier)){
                return ragged_case(id - nbase(tier));
        }
        if(k >= af_count(tier)){
                vh_case_timeout = 200;
                alarm(200);
                b = (k - af_count(tier)) < 2 ? build_big((int)(k - af_count(tier)), &a) : build_big_file(1011 + (int)(k - af_count(tier)) - 2, &a);
        }else{
                b = af_build(k, vh_seed, vh_tmpdir, &a);
        }
        if(b == 0){
                af_free(&a);
                return VH_SKIP;
        }
        if(b < 0){
                vh_fail("sem:aligned-file-not-read", "a legal aligned FASTA file could not be read");
                return VH_OK;
        }
        if(a.maxname > 254 && f != 0){
                /* Clustal and MSF cap names at 255 characters: names beyond that are judged in FASTA output only */
                af_free(&a);
                vh_count("long_names_judged_in_fasta_only");
                return VH_SKIP;
        }
        unlink(out);
        vh_count("library_calls");
        if(tostdout){
                int saved = dup(1);
                int fd = open(out, O_WRONLY | O_CREAT | O_TRUNC, 0600);
                fflush(stdout);
                dup2(fd, 1);
                rc = kalign_write_msa(a.m, NULL, (char*)FMT[f]);
                fflush(stdout);
                dup2(saved, 1);
                close(fd);
                close(saved);
        }else{
                rc = kalign_write_msa(a.m, (char*)out, (char*)FMT[f]);
        }
        if(rc != OK){
                vh_fail(a.from_file ? "sem:write-refuses-read-alignment" : "sem:write-failed", "kalign_write_msa(%s) fails on %s", FMT[f],
                        a.from_file ? "an alignment read from a file" : "an alignment it produced");
                af_free(&a);
                return VH_OK;
        }
        data = vh_read_file(out, &dl);
        if(!data){
                vh_fail("sem:no-output", "no output");
                af_free(&a);
                return VH_OK;
        }
        if(f == 0){
                rc = fp_parse_fasta(data, &p);
        }else if(f == 1){
                rc = fp_parse_clustal(data, &p);
        }else{
                rc = fp_parse_msf(data, &p);
        }
        if(rc){
                vh_fail("sem:unparsable", "%s output cannot be parsed: %s", FMT[f], p.err);
        }else{
                int bad = 0;
                if(p.n != a.n){
                        vh_fail("sem:row-count", "%s: %d rows in the file, %d in the alignment", FMT[f], p.n, a.n);
                        bad = 1;
                }
                for(i = 0; i < a.n && !bad; i++){
                        if(strcmp(p.row[i], a.rows[i]) != 0){
                                vh_fail("sem:rows-differ", "%s: row %d in the file is \"%.70s\", in the alignment \"%.70s\"", FMT[f], i, p.row[i], a.rows[i]);
                                bad = 1;
                        }else if(strcmp(p.name[i], a.names[i]) != 0){
                                vh_fail("sem:names-differ", "%s: name %d in the file is \"%.70s\", in the alignment \"%.70s\"", FMT[f], i, p.name[i], a.names[i]);
                                bad = 1;
                        }
                }
                if(!bad && !p.header_ok){
                        vh_fail("sem:header", "%s: header missing or malformed", FMT[f]);
                }
                if(!bad && f == 0 && p.bad_wrap){
                        vh_fail("sem:fasta-wrap", "FASTA rows are not wrapped at exactly 60 columns (width %d)", a.width);
                }
                if(!bad && f > 0 && (p.bad_block || p.max_line > 60)){
                        vh_fail("sem:blocks", "%s: %d malformed block(s), longest segment %d (width %d, %d blocks)", FMT[f], p.bad_block, p.max_line, a.width, p.blocks);
                }
                if(!bad && f > 0 && p.blocks != (a.width + 59) / 60){
                        vh_fail("sem:block-count", "%s: %d blocks for width %d", FMT[f], p.blocks, a.width);
                }
                if(!bad && f == 2){
                        int sum = 0;
                        if(p.msf_len != a.width){
                                vh_fail("sem:msf.len", "MSF: header declares length %d, true alignment length %d", p.msf_len, a.width);
                        }
                        for(i = 0; i < a.n; i++){
                                int chk = fp_gcg_checksum(p.row[i], (int)strlen(p.row[i]));
                                sum = (sum + chk) % 10000;
                                if(p.decl_len[i] != a.width){
                                        vh_fail("sem:msf.seq-len", "MSF: Len: of row %d is %d, true length %d", i, p.decl_len[i], a.width);
                                        break;
                                }
                                if(p.decl_check[i] != chk){
                                        vh_fail("sem:msf.seq-check", "MSF: Check: of row %d is %d, GCG checksum of the row as written is %d", i, p.decl_check[i], chk);
                                        break;
                                }
                        }
                        if(p.msf_check != sum){
                                vh_fail("sem:msf.total-check", "MSF: total Check: %d, sum of the row checksums mod 10000 is %d", p.msf_check, sum);
                        }
                        if(p.msf_type != (a.protein ? 'P' : 'N')){
                                vh_fail("sem:msf.type", "MSF: Type: %c for %s sequences", p.msf_type, a.protein ? "protein" : "nucleotide");
                        }
                        if(strcmp(p.msf_bang, a.protein ? "AA" : "NA") != 0){
                                vh_fail("sem:msf.bang", "MSF: first line says !!%s_MULTIPLE_ALIGNMENT for %s sequences", p.msf_bang, a.protein ? "protein" : "nucleotide");
                        }
                }
                if(a.width % 60 == 0){
                        vh_count("width_multiple_of_60");
                }
                if(a.width > 60){
                        vh_count("nontrivial_multi_block");
                }
        }
        fp_free(&p);
        free(data);
        af_free(&a);
        return VH_OK;
}
