import enumcheck
LEGS = [{"name": "C17", "variant": "serial-O2", "sources": ["harness/C17_compare.c"]},
        {"name": "C17big", "variant": "serial-O2", "sources": ["harness/C17_big.c"]},
        {"name": "C17bigt", "variant": "gomp", "sources": ["harness/C17_big.c"], "env": {"OMP_NUM_THREADS": "4"}}]
run, replay = enumcheck.simple("C17", LEGS,
    "for every listed set of 2..4 uniquely named sequences (lengths <= 3 resp. 4): ALL alignments of the set without all-gap column are generated; "
    "a case is (set, reference alignment) and inside it EVERY test alignment of the set is compared, each pair under one (row order of both files, "
    "all-gap columns at front/middle/end, FASTA/Clustal/MSF rendering) variant taken from a cycle over all of them, the identical pair under all "
    "row orders; plus the alignment a run in the same process produces as reference against each file alignment; legs C17big / C17bigt: 96 "
    "pairs of alignments of 2 / 63 / 64 / 65 / 96 / 130 rows x 36 columns (reference vs a test alignment with shifted gap runs, and reference "
    "vs itself, 5 rounds) on the OpenMP-free build and on the real libgomp with 4 threads. library_calls counts the "
    "comparisons. Files always contain a gap character (premise). non-trivial = score strictly between 0 and 100", "nontrivial_score_strictly_between",
    ["the score definition is re-implemented over column-membership relations in double precision; tolerance 1e-4 relative (API returns float)"])
