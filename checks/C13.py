import enumcheck
LEGS = [{"name": "C13", "variant": "serial-O2", "sources": ["harness/C13_kind.c"]}]
run, replay = enumcheck.simple("C13", LEGS,
    "case = count vector (shared ACGTN, U, protein-only, other letters) with total <= T satisfying one of the two premises x non-residue "
    "characters {0,1,5,10x residues} x 12 arrangements (3 orders, 2 splits into 2/3 sequences, 2 namings) x entry point "
    "{FASTA file, array API | Clustal file}; the decision is linear in the histogram, so totals <= T cover every proportion with "
    "denominator <= T; non-trivial = composition with U, other letters or non-residue characters", "nontrivial_mixed_composition",
    ["the two premises are evaluated by the harness on the count vector it generated; inputs mixing both premises do not exist (p=0 vs p>0)"])
