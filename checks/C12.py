import enumcheck
LEGS = [{"name": "C12", "variant": "serial-O2", "sources": ["harness/C12_duplicates.c"]}]
run, replay = enumcheck.simple("C12", LEGS,
    "case = tuple of 3..5 sequences over {A,C}/{A,C,G} or {L,M,K}/{L,M,K,R} (L/M and K/R share a similarity class), bounded length, x type; tuples "
    "without a repeated member are skipped; for every repeated member the containment premise is decided by independent code on the "
    "class-reduced alphabet, members outside the premise are counted and not judged; plus 48 sets of 20..99 sequences built from 3..5 distinct "
    "sequences; non-trivial = judged set whose alignment contains a gap", "nontrivial_judged_with_gap",
    ["the 13-class reduction used for the premise is the published one (L,M)(I,V)(K,R)(E,Q,Z)(A,S,T)(N,D,B)(F,Y); nucleotides: U=T, IUPAC codes=N"])
