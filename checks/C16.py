import enumcheck
LEGS = [{"name": "C16", "variant": "serial-asan", "sources": ["harness/C16_history.c"], "args": ["--batch", "400"]},
        {"name": "C16g", "variant": "gomp", "sources": ["harness/C16_history.c"], "cflags": ["-DC16_THREADS_ALT=4"], "args": ["--batch", "400"]}]
run, replay = enumcheck.simple("C16", LEGS,
    "explicit-state breadth-first search over API-call histories on the real library: alphabet of 28 operations over two object slots "
    "(kalign() on 3 inputs x 2 settings; read of 4 files (nucleotide FASTA, protein Clustal, aligned FASTA, 104 sequences) into a slot, "
    "accumulating; kalign_run with 3 settings; write in 3 formats; compare both ways; free), all histories up to depth 3 (quick) / 4 (thorough, "
    "without the 100-sequence inputs at depth 4); a state is the history that reaches it, replayed in a fresh process; the last call's result is "
    "compared with its result after the object-local projection of the history in a fresh process; LeakSanitizer recoverable check after freeing "
    "everything (ASan leg). Leg C16g: real libgomp with 1 and 4 threads. non-trivial = histories whose last call has an unrelated prefix",
    "nontrivial_histories_with_unrelated_prefix",
    ["states are not merged (no canonical form of the library's objects is assumed)", "the MSF date and file name are masked"],
    level="model_checking")
