import enumcheck
LEGS = [{"name": "C06", "variant": "serial-O2", "sources": ["harness/C06_roundtrip.c"]}]
run, replay = enumcheck.simple("C06", LEGS,
    "the C15 alignment family (widths around multiples of 60, names of 1..200 characters over letters, digits and _ . | -, upper/lower-case "
    "residues, 2/3/7 rows, both kinds; plus every <=3x<=4 alignment read from a file) x all 9 ordered pairs of formats: write f1, read, compare, "
    "write f2 (conversion of the read alignment), read, compare rows, order, names, residues and gap positions; non-trivial = alignment with gaps",
    "nontrivial_has_gap",
    ["the read side is observed on the msa object (names, seq, gaps[]) as the property's observe_at states"])
