import enumcheck
LEGS = [{"name": "C03", "variant": "serial-O2", "sources": ["harness/C03_order.c"]}]
run, replay = enumcheck.simple("C03", LEGS,
    "case = named set (k = 3..5 sequences over a 2-3 letter alphabet, bounded length, two namings of which one sorts in reverse input order) x type; "
    "inside each case ALL k! record orders are run and the map name -> gapped row is compared with the input-order run. For the >= 100 sequence "
    "(k-means) path: two sets (104 nucleotide, 130 protein) x two namings x the family {all transpositions (thorough) / every 10th (quick), "
    "all rotations, reversal}. non-trivial = base alignment contains a gap", "nontrivial_base_has_gap",
    ["names are pairwise distinct by construction (premise of C03)", "n_threads = 1 on the OpenMP-free build; thread counts are C02's subject"])
