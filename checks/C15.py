import enumcheck
LEGS = [{"name": "C15", "variant": "serial-asan", "sources": ["harness/C15_wellformed.c"]}]
run, replay = enumcheck.simple("C15", LEGS,
    "alignment family: (i) run-produced alignments for widths {1,2,3,59,60,61,119,120,121,180,181,240} x name lengths {1,2,10,59,60,61,199,200} x "
    "13 placements of the characters _ . | - in the name x {2,3,7} rows x {nucleotide, protein}; (ii) every <=3 x <=4 alignment with a gap and "
    "without all-gap column, read from an aligned FASTA file; (iii) two alignments with more than 1024 output lines; each written in all 3 formats "
    "to a file and to stdout and parsed by independent readers; non-trivial = alignments wider than one 60-column block", "nontrivial_multi_block",
    ["the MSF date is ignored", "MSF per-row checksums are recomputed over the row exactly as it appears in the file (GCG algorithm, independent code)"])
