import enumcheck
# second leg without a sanitizer: ASan's quarantine never hands a freed address out again, so state keyed by an object's address
# (a cache that survives the object) can only show when the plain allocator recycles addresses across the cases of one worker process
LEGS = [{"name": "C15", "variant": "serial-asan", "sources": ["harness/C15_wellformed.c"]},
        {"name": "C15o", "variant": "serial-O2", "sources": ["harness/C15_wellformed.c"], "args": ["--batch", "4000"]}]
run, replay = enumcheck.simple("C15", LEGS,
    "alignment family: (i) run-produced alignments for widths {1,2,3,59,60,61,119,120,121,180,181,240} x name lengths {1,2,10,59,60,61,199,200} x "
    "13 placements of the characters _ . | - in the name x {2,3,7} rows x {nucleotide, protein}; (ii) every <=3 x <=4 alignment with a gap and "
    "without all-gap column, read from an aligned FASTA file; (iii) two alignments with more than 1024 output lines; each written in all 3 formats "
    "to a file and to stdout and parsed by independent readers; ragged read inputs written without a run; every case on the ASan build and again on the "
    "plain optimised build (thousands of cases per process, freed addresses recycled); non-trivial = alignments wider than one 60-column block", "nontrivial_multi_block",
    ["the MSF date is ignored", "MSF per-row checksums are recomputed over the row exactly as it appears in the file (GCG algorithm, independent code)"])
