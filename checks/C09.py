import enumcheck

LEGS = [{"name": "C09", "variant": "serial-asan", "sources": ["harness/C09_params.c"], "with_cli": True}]
RULE = ("the complete finite table: (A) 2 kinds x 6 type constants x 8 subsets of {gpo,gpe,tgpe} x 3 override values through aln_param_init and, "
        "observed by the PARAMS hook, through kalign_run; (B) 5 documented --type words x 2 kinds x 8 subsets through the CLI's own main(); "
        "(C) explicit-default == implicit-default on all pairs over 3 letters of length 1..3 x admissible types x 7 non-empty subsets; "
        "(D) documented numbers. non-trivial = a case with at least one override given / a gap-bearing alignment / a documented fact")


def run(tier):
    return enumcheck.run_enum("C09", tier, LEGS, RULE, "nontrivial_override_cases",
                              assumptions=["differential oracle: the no-override result of the same build defines what 'nothing else changes' means; golden values only for the numbers README.md states"])


def replay(path):
    return enumcheck.replay_enum("C09", path, LEGS)
