"""C02 (and the schedule leg of C10): exhaustive preemption-bounded exploration of kalign_run under vgomp."""
import json, os, queue, re, subprocess, sys, time, threading
from concurrent.futures import ThreadPoolExecutor
import vp, build
import modelconf

PROP = "C02"
Y_MERGE, Y_KERNEL, Y_SPLIT, Y_DM = 1, 2, 4, 8

# input indices of harness/sched_inputs.h
TREES = [0, 1, 2, 3, 4, 5, 6, 15]
DPS = [7, 8, 9, 10]
KMS = [11, 12, 13, 16]


def jobs_for(tier):
    """(variant, input, threads, nested, bound, cost, policy, yields, nshards)"""
    J = []
    if tier == "quick":
        for k in (6, 3):
            J.append(("vgomp-O2", k, 2, 0, 2, 0, 0, Y_MERGE | Y_KERNEL, 12))      # the two 6-leaf trees are the largest jobs: first, most shards
        for k in TREES:
            if k not in (6, 3):
                J.append(("vgomp-O2", k, 2, 0, 2, 0, 0, Y_MERGE | Y_KERNEL, 4))
            J.append(("vgomp-O2", k, 3, 0, 1, 0, 0, Y_MERGE | Y_KERNEL, 2))
            J.append(("vgomp-asan", k, 2, 0, 1, 0, 0, Y_MERGE, 1))
        J.append(("vgomp-O2", 0, 2, 0, 2, 0, 0, Y_DM, 2))
        J.append(("vgomp-O2", 0, 3, 0, 1, 0, 0, Y_DM | Y_MERGE, 2))
        for k in DPS:
            J.append(("vgomp-O2", k, 2, 1, 1, 0, 0, Y_KERNEL | Y_MERGE, 2))
            J.append(("vgomp-O2", k, 2, 0, 2, 0, 0, Y_KERNEL | Y_MERGE, 2))
        J.append(("vgomp-O2", 7, 2, 1, 2, 0, 0, Y_KERNEL, 2))
        J.append(("vgomp-O2", 7, 3, 1, 1, 0, 0, Y_KERNEL, 2))
        J.append(("vgomp-asan", 7, 2, 1, 1, 0, 0, Y_KERNEL, 2))
        J.append(("vgomp-O2", 11, 2, 0, 1, 1, 0, Y_SPLIT, 8))
        J.append(("vgomp-O2", 11, 2, 0, 1, 1, 2, Y_MERGE, 8))
        J.append(("vgomp-O2", 12, 3, 0, 1, 1, 1, Y_SPLIT, 8))
        J.append(("vgomp-O2", 16, 2, 0, 1, 1, 1, Y_SPLIT, 8))       # k-means restarts with exactly tied scores
        J.append(("vgomp-O2", 16, 2, 0, 1, 1, 0, Y_SPLIT, 8))
    else:
        for k in TREES:
            small = k in (0, 1, 5)
            J.append(("vgomp-O2", k, 2, 0, 3 if small else 2, 0, 0, Y_MERGE | Y_KERNEL, 16))
            J.append(("vgomp-O2", k, 3, 0, 2, 0, 0, Y_MERGE | Y_KERNEL, 16))
            J.append(("vgomp-O2", k, 4, 0, 1, 0, 0, Y_MERGE | Y_KERNEL, 4))
            J.append(("vgomp-O2", k, 2, 1, 2, 0, 0, Y_MERGE, 4))
            J.append(("vgomp-asan", k, 2, 0, 2, 0, 0, Y_MERGE, 8))
            J.append(("vgomp-asan", k, 3, 0, 1, 0, 0, Y_MERGE | Y_KERNEL, 8))
        for k in (0, 2):
            J.append(("vgomp-O2", k, 2, 0, 2, 0, 0, Y_DM | Y_MERGE, 8))
            J.append(("vgomp-O2", k, 3, 0, 2, 0, 0, Y_DM, 8))
            J.append(("vgomp-O2", k, 4, 0, 1, 0, 0, Y_DM, 4))
        for k in DPS:
            J.append(("vgomp-O2", k, 2, 1, 2, 0, 0, Y_KERNEL | Y_MERGE, 16))
            J.append(("vgomp-O2", k, 3, 1, 1, 0, 0, Y_KERNEL | Y_MERGE, 8))
            J.append(("vgomp-O2", k, 2, 0, 2, 0, 0, Y_KERNEL | Y_MERGE, 8))
            J.append(("vgomp-O2", k, 3, 0, 2, 0, 0, Y_KERNEL | Y_MERGE, 8))
            J.append(("vgomp-asan", k, 2, 1, 1, 0, 0, Y_KERNEL, 8))
        J.append(("vgomp-O2", 7, 3, 1, 2, 0, 0, Y_KERNEL, 16))
        for k in KMS:
            for pol in (0, 1, 2, 3):
                J.append(("vgomp-O2", k, 2, 0, 1, 1, pol, Y_SPLIT | Y_MERGE, 16))
            J.append(("vgomp-O2", k, 3, 0, 1, 1, 0, Y_SPLIT, 16))
            J.append(("vgomp-O2", k, 4, 1, 1, 1, 2, Y_MERGE, 16))
        J.append(("vgomp-O2", 11, 2, 0, 1, 1, 0, Y_DM, 16))
        J.append(("vgomp-O2", 11, 2, 0, 2, 1, 0, Y_SPLIT, 16))
    return J


def job_cmd(exe, job, refs, shard, cpu, deadline):
    variant, k, N, nested, bound, cost, pol, yields, nsh = job
    return [exe, "--mode", "explore", "--input", str(k), "--threads", str(N), "--nested", str(nested), "--bound", str(bound),
            "--cost", str(cost), "--policy", str(pol), "--yields", str(yields), "--ref", refs[k], "--shard", str(shard),
            "--nshards", str(nsh), "--cpu", str(cpu), "--deadline", str(int(deadline))]


def replay_cmd(exe, rec):
    return [exe, "--mode", "replay", "--input", str(rec["input"]), "--threads", str(rec["threads"]), "--nested", str(rec["nested"]),
            "--policy", str(rec["policy"]), "--yields", str(rec["yields"]), "--ref", rec["ref"], "--choices", rec["choices"]]


def parse_sched(out):
    B, F, C, S = [], [], [], {}
    lines = out.split("\n")
    i = 0
    while i < len(lines):
        ln = lines[i]
        if ln.startswith("B "):
            B.append(dict(kv.split("=") for kv in ln[2:].split()))
        elif ln.startswith("F "):
            p = ln.split(" ", 3)
            text = p[3] if len(p) > 3 else ""
            ch = ""
            if ":: choices=" in text:
                text, ch = text.split(":: choices=")
            F.append({"sig": p[2], "text": text.strip(), "choices": ch.strip()})
        elif ln.startswith("C "):
            m = re.search(r"choices=(\S*)", ln)
            rep = []
            i += 1
            while i < len(lines) and lines[i] != ".":
                if lines[i].startswith("| "):
                    rep.append(lines[i][2:])
                i += 1
            C.append({"sig": vp.crash_signature("signal", rep), "text": " / ".join(rep[:8])[:700], "choices": m.group(1) if m else ""})
        elif ln.startswith("S "):
            p = ln.split()
            S[p[1]] = S.get(p[1], 0) + int(p[2])
        i += 1
    return B, F, C, S


def c02env():
    e = vp.env()
    e["ASAN_OPTIONS"] = e["ASAN_OPTIONS"].replace("detect_leaks=1", "detect_leaks=0")   # leaks are C05/C16's subject
    return e


def run(tier):
    t0 = time.time()
    deadline = 110 if tier == "quick" else 1500
    errors, failures = [], []
    phases = {}
    tp = time.time()
    # 0. self-test of the scheduler/explorer on toy programs
    st_exe = build.build_vgomp_selftest()
    r = subprocess.run(["taskset", "-c", "0", st_exe], stdout=subprocess.PIPE, stderr=subprocess.STDOUT, text=True, timeout=600)
    selftest_ok = (r.returncode == 0 and "SELFTEST OK" in r.stdout)
    if not selftest_ok:
        errors.append("vgomp self-test failed: " + r.stdout[-500:])
    selftest_execs = sum(int(m) for m in re.findall(r"executions=(\d+)", r.stdout))
    phases['selftest'] = round(time.time() - tp, 1)
    tp = time.time()

    # 1. reference bytes from the OpenMP-free build (also runs the monitors on it)
    ref_exe = build.build_harness("C02", "serial-asan", ["harness/C02_sched.c"])
    r = subprocess.run([ref_exe, "--mode", "ref"], stdout=subprocess.PIPE, stderr=subprocess.PIPE, text=True, env=c02env(), timeout=600)
    refs, names = {}, {}
    for ln in r.stdout.split("\n"):
        if ln.startswith("R "):
            p = ln.split()
            refs[int(p[1])] = p[2]
            names[int(p[1])] = p[4]
            if "rc=0" not in ln or "MONITOR" in ln:
                failures.append({"sig": "sem:serial-build-fails", "text": ln, "rec": None})
    if r.returncode != 0 and ("Sanitizer" in r.stderr or "runtime error" in r.stderr):
        # the OpenMP-free build itself dies on one of the inputs: that is a verdict (the alignment of that input is not the same
        # as anything), reported with the sanitizer's signature; the schedule exploration has nothing to compare with
        rep = r.stderr.split("\n")
        done = sorted(names.values())
        viol = [{"sig": vp.crash_signature("exit", rep) + "@serial-build", "count": 1,
                 "example": {"id": 0, "text": "the OpenMP-free build crashes while computing the reference alignments (after %d of the inputs): %s"
                                              % (len(done), " / ".join(l.strip() for l in rep[:8])[:600]), "extra": None}}]
        return vp.finish(PROP, tier, t0, [], viol, [], [], {"states": 1, "transitions": 1, "traces_validated_against_impl": 0,
                                                            "samples": ["reference run crashed"], "exhaustive": False}, ASSUMPTIONS)
    if r.returncode != 0 or not refs:
        errors.append("reference run failed: rc=%s %s" % (r.returncode, r.stderr[-400:]))
        return vp.finish(PROP, tier, t0, [], [], [], [], {"states": 1, "transitions": 1, "traces_validated_against_impl": 0,
                                                          "samples": ["reference run failed"], "exhaustive": False}, [],
                         ) if False else finish_err(tier, t0, errors)
    # 1b. the scheduler against the Promela model (models/omp_tasks.pml): schedule counts and merge orders must agree
    conf, conf_err = modelconf.run(refs, threads=(1, 2) if tier == "quick" else (1, 2, 3), env=c02env())
    for ce in conf_err:
        if "explorer reported a failure" in ce:
            failures.append({"sig": "sem:failure-in-conformance-run", "text": ce, "rec": None})
        else:
            errors.append("model conformance: " + ce)
    for rec in conf:
        if not rec["agree"] and not conf_err:
            errors.append("model conformance: Promela model and implementation disagree: %s" % rec)
    phases['refs+model'] = round(time.time() - tp, 1)
    tp = time.time()

    # 2. exploration
    jobs = jobs_for(tier)
    exes = {}
    for v in sorted(set(j[0] for j in jobs)):
        exes[v] = build.build_harness("C02", v, ["harness/C02_sched.c"])
    cpus = queue.Queue()
    for c in range(vp.NCPU):
        cpus.put(c)
    results = []        # (job, shard, B, F, C)
    tend = time.time() + deadline

    def one(arg):
        job, shard = arg
        cpu = cpus.get()
        try:
            left = max(5, tend - time.time())
            cmd = job_cmd(exes[job[0]], job, refs, shard, cpu, left)
            try:
                rr = subprocess.run(cmd, stdout=subprocess.PIPE, stderr=subprocess.PIPE, text=True, env=c02env(), timeout=left + 120)
                return job, shard, rr.returncode, rr.stdout, rr.stderr
            except subprocess.TimeoutExpired:
                return job, shard, -999, "", "timeout"
        finally:
            cpus.put(cpu)

    work = [(j, s) for j in jobs for s in range(j[8])]
    # longest first is unknown; keep list order (jobs of one input are adjacent, shards interleave)
    with ThreadPoolExecutor(vp.NCPU) as ex:
        for job, shard, rc, out, err in ex.map(one, work):
            B, F, C, S = parse_sched(out)
            results.append((job, shard, B))
            if rc != 0:
                errors.append("explorer %s shard %d exited %s: %s" % (job, shard, rc, err[-300:]))
            for f in F + C:
                f["rec"] = {"variant": job[0], "input": job[1], "threads": job[2], "nested": job[3], "policy": job[6],
                            "yields": job[7], "ref": refs[job[1]], "choices": f["choices"], "input_name": names.get(job[1])}
                failures.append(f)
    # aggregate per job / bound
    per_job = []
    tot_exec = tot_points = tot_overlap = 0
    all_complete = True
    for job in jobs:
        agg = {}
        for (j, s, B) in results:
            if j is not job:
                continue
            for b in B:
                a = agg.setdefault(int(b["bound"]), {"executions": 0, "points": 0, "complete": True, "shards": 0, "orders": 0,
                                                     "merge_overlap": 0, "kernel_overlap": 0, "maxpoints": 0, "regroup": 0})
                a["executions"] += int(b["executions"])
                a["points"] += int(b["points"])
                a["complete"] = a["complete"] and b["complete"] == "1"
                a["shards"] += 1
                a["orders"] = max(a["orders"], int(b["orders"]))
                a["merge_overlap"] += int(b["merge_overlap"])
                a["kernel_overlap"] += int(b["kernel_overlap"])
                a["regroup"] += int(b["regroup"])
                a["maxpoints"] = max(a["maxpoints"], int(b["maxpoints"]))
        done = [b for b in sorted(agg) if agg[b]["complete"] and agg[b]["shards"] == job[8]]
        top = done[-1] if done else None
        if top is None or top < job[4]:
            all_complete = False
        if top is not None:
            a = agg[top]
            tot_exec += a["executions"]
            tot_points += a["points"]
            tot_overlap += a["merge_overlap"] + a["kernel_overlap"]
        per_job.append({"build": job[0], "input": names.get(job[1]), "threads": job[2], "nested_teams": bool(job[3]),
                        "cost": "departure" if job[5] else "preemption", "policy": job[6], "yield_classes": job[7],
                        "bound_requested": job[4], "bound_completed": top,
                        "schedules": agg[top]["executions"] if top is not None else 0,
                        "scheduling_points": agg[top]["points"] if top is not None else 0,
                        "distinct_event_orders_max_per_shard": agg[top]["orders"] if top is not None else 0,
                        "schedules_with_overlapping_merges": agg[top]["merge_overlap"] if top is not None else 0,
                        "schedules_with_overlapping_fwd_bwd": agg[top]["kernel_overlap"] if top is not None else 0})
    phases['exploration'] = round(time.time() - tp, 1)
    tp = time.time()
    # 3. canonical schedule for every thread count 1..64 (x nested on/off x default policies), twice for N<=2
    canon_runs = 0
    canon_inputs = sorted(refs) if tier == "thorough" else [k for k in sorted(refs) if k != 13]

    def canon(arg):
        k, lo, hi = arg
        cpu = cpus.get()        # pinned: the hand-off between strands is ten times faster when all of them share one CPU
        try:
            rr = subprocess.run(["taskset", "-c", str(cpu), exes.get("vgomp-asan") or build.build_harness("C02", "vgomp-asan", ["harness/C02_sched.c"]),
                                 "--mode", "canon", "--input", str(k), "--ref", refs[k], "--nfrom", str(lo), "--nto", str(hi)],
                                stdout=subprocess.PIPE, stderr=subprocess.PIPE, text=True, env=c02env(), timeout=1200)
        finally:
            cpus.put(cpu)
        return k, rr

    if "vgomp-asan" not in exes:
        exes["vgomp-asan"] = build.build_harness("C02", "vgomp-asan", ["harness/C02_sched.c"])
    with ThreadPoolExecutor(vp.NCPU) as ex:
        # the 100+-sequence inputs are split into four ranges of N so that no single process holds the phase up
        canon_work = []
        for k in canon_inputs:
            if k in KMS:
                canon_work += [(k, 1, 16), (k, 17, 32), (k, 33, 48), (k, 49, 64)]
            else:
                canon_work.append((k, 1, 64))
        canon_work.sort(key=lambda w: 0 if w[0] in KMS else 1)
        for k, rr in ex.map(canon, canon_work):
            B, F, C, S = parse_sched(rr.stdout)
            canon_runs += S.get("canon_runs", 0)
            if rr.returncode != 0 and not F:
                rep = rr.stderr.split("\n")
                failures.append({"sig": vp.crash_signature("exit", rep), "text": "canonical schedule, input %s: %s" % (names.get(k), " / ".join(rep[:6])[:500]), "rec": None})
            for f in F:
                f["rec"] = None
                f["text"] = "canonical schedule: " + f["text"]
                failures.append(f)
    phases['canonical'] = round(time.time() - tp, 1)
    tp = time.time()
    # 4. free-running race pass under ThreadSanitizer (same harness bodies, real concurrent threads)
    tsan_exe = build.build_harness("C02", "vgomp-tsan", ["harness/C02_sched.c"])
    tsan_runs = 0
    tsan_cfgs = [(k, N, nested) for k in sorted(refs) for (N, nested) in ((2, 0), (4, 1), (8, 0))]
    if tier == "quick":
        tsan_cfgs = [c for c in tsan_cfgs if c[0] != 13 and not (c[0] in KMS and c[1] == 8)]

    def tsan(cfg):
        k, N, nested = cfg
        reps = 2 if tier == "quick" else 5
        rr = subprocess.run([tsan_exe, "--mode", "plain", "--input", str(k), "--threads", str(N), "--nested", str(nested),
                             "--ref", refs[k], "--reps", str(reps)], stdout=subprocess.PIPE, stderr=subprocess.PIPE, text=True,
                            env=c02env(), timeout=1200)
        return cfg, reps, rr

    with ThreadPoolExecutor(8) as ex:
        for cfg, reps, rr in ex.map(tsan, tsan_cfgs):
            tsan_runs += reps
            B, F, C, S = parse_sched(rr.stdout)
            for f in F:
                f["rec"] = None
                f["text"] = "TSan build, free-running: " + f["text"]
                failures.append(f)
            if "ThreadSanitizer" in rr.stderr:
                rep = rr.stderr.split("\n")
                func = "?"
                for ln in rep:
                    m = re.search(r"#\d+ (\S+) (/repo/\S+)", ln)
                    if m:
                        func = m.group(1)
                        break
                failures.append({"sig": "tsan:data-race@" + func, "rec": None,
                                 "text": "input %s, %d threads, nested=%d: %s" % (names.get(cfg[0]), cfg[1], cfg[2], " / ".join(l.strip() for l in rep[1:9])[:700])})
            elif rr.returncode != 0:
                errors.append("TSan run %s exited %d: %s" % (cfg, rr.returncode, rr.stderr[-300:]))
    phases['tsan'] = round(time.time() - tp, 1)
    tp = time.time()
    # 5. supplementary sample on the real libgomp (not deciding)
    gomp_exe = build.build_harness("C02", "gomp", ["harness/C02_sched.c"], extra_cflags=("-DNO_VGOMP",))
    gomp_runs = 0

    def gomp(cfg):
        k, N, lv = cfg
        e = c02env()
        e["OMP_MAX_ACTIVE_LEVELS"] = str(lv)
        rr = subprocess.run([gomp_exe, "--mode", "plain", "--input", str(k), "--threads", str(N), "--ref", refs[k], "--reps", "3"],
                            stdout=subprocess.PIPE, stderr=subprocess.PIPE, text=True, env=e, timeout=1200)
        return cfg, rr

    gcfg = [(k, N, lv) for k in sorted(refs) for N in (1, 2, 3, 4, 8, 16, 64) for lv in (1, 3)]
    if tier == "quick":
        gcfg = [c for c in gcfg if c[1] in (1, 2, 4, 16, 64) and not (c[0] == 13)]
    with ThreadPoolExecutor(4) as ex:
        for cfg, rr in ex.map(gomp, gcfg):
            gomp_runs += 3
            B, F, C, S = parse_sched(rr.stdout)
            for f in F:
                f["rec"] = None
                f["text"] = "real libgomp, %d threads, max-active-levels %d: %s" % (cfg[1], cfg[2], f["text"])
                f["sig"] = f["sig"] + "@libgomp"
                failures.append(f)
            if rr.returncode != 0:
                errors.append("libgomp run %s exited %d: %s" % (cfg, rr.returncode, rr.stderr[-300:]))

    phases['libgomp'] = round(time.time() - tp, 1)
    # triage: every scheduled failure is replayed twice in fresh processes and must reproduce identically
    def confirm_factory(fl):
        def confirm(idx):
            f = fl[idx]
            rec = f.get("rec")
            if not rec:
                return [f["sig"]]       # non-schedule legs (canon/TSan/libgomp) were already whole-process runs
            sigs = None
            for _ in range(2):
                rr = subprocess.run(replay_cmd(exes[rec["variant"]], rec), stdout=subprocess.PIPE, stderr=subprocess.PIPE,
                                    text=True, env=c02env(), timeout=600)
                B, F, C, S = parse_sched(rr.stdout)
                got = sorted(x["sig"] for x in F)
                if rr.returncode != 0 and not got:
                    got = [vp.crash_signature("exit", rr.stderr.split("\n"))]
                if sigs is not None and got != sigs:
                    return []
                sigs = got
            return sigs or []
        return confirm

    for i, f in enumerate(failures):
        f["id"] = i
        f["extra"] = f.get("rec")
    violations, knowns, flaky = vp.triage(PROP, failures, confirm_factory(failures))
    samples = [{"job": pj, "note": "every schedule within the bound was executed on the real library"} for pj in per_job[:4]]
    coverage = {
        "states": max(tot_exec, 1), "transitions": max(tot_points, 1), "traces_validated_against_impl": tot_exec,
        "evaluations": tot_exec + canon_runs + tsan_runs + gomp_runs, "distinct_nontrivial": tot_overlap,
        "rule": "a state is one complete schedule (choice list) of one harness job; transitions are scheduler decisions with >=2 enabled strands; "
                "non-trivial = schedules in which two merge bodies or a forward and a backward pass actually overlapped",
        "samples": samples, "exhaustive": all_complete and not errors,
        "jobs": per_job, "canonical_runs_N1_to_64": canon_runs, "tsan_free_running_runs": tsan_runs,
        "libgomp_sample_runs_not_deciding": gomp_runs, "scheduler_selftest_ok": selftest_ok, "phase_seconds": phases,
        "scheduler_selftest_schedules": selftest_execs,
        "promela_model_conformance": conf,
        "model_traces_counted_against_impl": sum(r["model_paths"] for r in conf if r["agree"]),
        "reductions": ["idle implicit tasks of a team whose single is claimed run only when nothing else is enabled",
                       "merge/kernel events are scheduling points only while another deferred task is runnable"],
    }
    res = vp.Result()
    res.errors = errors
    st = vp.finish(PROP, tier, t0, [res], violations, knowns, flaky, coverage, ASSUMPTIONS)
    if st == 0 and tot_overlap == 0:
        print("ERROR: vacuous exploration: no schedule had overlapping task bodies")
        st = 2
    print("C02 %s: jobs=%d schedules=%d points=%d overlapping=%d canon=%d tsan=%d gomp=%d complete=%s violations=%d wall=%.1fs" % (
        tier, len(jobs), tot_exec, tot_points, tot_overlap, canon_runs, tsan_runs, gomp_runs, all_complete, len(violations), time.time() - t0))
    if tier == "quick" and not all_complete and st == 0:
        print("note: some job did not complete its requested bound before the deadline; completed bounds are in the evidence")
    return st


ASSUMPTIONS = [
    "schedules are explored at the granularity of OpenMP runtime calls plus the KALIGN_VERIF hook events, up to the preemption/departure bound recorded per job",
    "instruction-level interleavings are covered only through data-race freedom, checked by the separate free-running ThreadSanitizer pass on the same inputs",
    "vgomp models the OpenMP tasking rules with one thread per runnable task and a per-team concurrency cap; tied-task placement is over-approximated (see DESIGN.md 2.2)",
    "floating-point results are compared between builds with the same code generation flags (AVX2) only",
]


def finish_err(tier, t0, errors):
    res = vp.Result()
    res.errors = errors
    return vp.finish(PROP, tier, t0, [res], [], [], [], {"states": 1, "transitions": 1, "traces_validated_against_impl": 0,
                                                        "samples": ["no exploration: " + "; ".join(errors)[:300]], "exhaustive": False},
                     ASSUMPTIONS)


def replay(path):
    rec0 = json.load(open(path))
    rec = rec0.get("extra")
    if not rec:
        print("this violation was not a scheduled execution (canonical/TSan/libgomp leg); re-run the check: " + (rec0.get("text") or ""))
        return 1
    exe = build.build_harness("C02", rec["variant"], ["harness/C02_sched.c"])
    rr = subprocess.run(replay_cmd(exe, rec), stdout=subprocess.PIPE, stderr=subprocess.PIPE, text=True, env=c02env(), timeout=600)
    print(rr.stdout[-3000:])
    B, F, C, S = parse_sched(rr.stdout)
    if F or rr.returncode != 0:
        print("VIOLATION property=%s replay=%s" % (PROP, path))
        return 1
    print("replay: the recorded schedule did not reproduce a violation on the current tree")
    return 0
