import enumcheck
LEGS = [{"name": "C08", "variant": "serial-asan", "sources": ["harness/C08_identical.c"]},
        {"name": "C08t", "variant": "gomp", "sources": ["harness/C08_identical.c"], "cflags": ["-DC08_THREADS=16"]}]
run, replay = enumcheck.simple("C08", LEGS,
    "case = every string over {A,C,N,R,U} / {L,K,X,B,Z} up to length L x copies {2,3,4,5} x every type constant of the kind, plus structured "
    "strings (all-N, all-X, period 1-3, pseudo-random) at lengths {1,59,60,61,499,500,501,1024,5000} x copies {2,3,99,100,101,257,500} within a "
    "size budget; leg C08 = OpenMP-free ASan build with 1 thread, leg C08t = real libgomp build with 2,3,16 threads; "
    "non-trivial = sequences of at least 2 residues", "nontrivial_len_ge_2",
    ["a type that does not fit the detected kind is expected to be rejected and is counted, not judged",
     "thread counts 2,3,16 run on the real libgomp (one schedule each); schedule independence is C02's subject",
     "a case that does not return within its limit (300 s quick, 1500 s thorough; clean runs need < 60 s) is re-run alone and, if it "
     "again does not return, reported as a violation (signature timeout)"], timeout=2400)
