"""C10: enumeration leg (every internal node of every run of a bounded-exhaustive input family) + schedule leg
(the same oracle evaluated on every schedule of a C02 exploration subset)."""
import json, os, subprocess, time
import enumcheck, vp, build
import C02

LEGS = [{"name": "C10", "variant": "serial-asan", "sources": ["harness/C10_progressive.c"]},
        {"name": "C10t", "variant": "gomp", "sources": ["harness/C10_progressive.c"], "cflags": ["-DC10_THREADS=4"], "ld": ["-lpthread"]}]
RULE = ("enumeration leg: every tuple of 3..5(6) sequences over 2-3 letter alphabets up to a length bound x 3 gap-penalty presets (default, zero, "
        "small: zero/small penalties give gap-rich groups), plus k-means trees (104/130/230 sequences) and the 99..513-sequence large shapes; at "
        "every MERGE_END the member gap vectors are copied and, after the run, compared with the projection of the final alignment onto the node; "
        "schedule leg: the same oracle on every schedule explored by a subset of the C02 jobs; non-trivial = runs in which a node that already "
        "contained gaps was merged again")


def run(tier):
    t0 = time.time()
    # schedule leg first (its numbers go into the evidence of the enumeration leg's run)
    sched = schedule_leg(tier)
    extra = {"schedule_leg": sched["summary"]}
    st = enumcheck.run_enum("C10", tier, LEGS, RULE, "nontrivial_cases_with_regrouped_gapped_node",
                            assumptions=["member ids of a snapshot are mapped to final rows by re-deriving the canonical (length, name) order; names are distinct by construction"],
                            extra_coverage=extra)
    if sched["violations"]:
        for v in sched["violations"]:
            path = vp.write_replay("C10", v["sig"], {"id": 0, "text": v["text"], "extra": v["rec"]}, "bin/check C02 --replay {path}")
            print("VIOLATION property=C10 replay=%s" % path)
            print("  schedule leg: %s" % v["text"][:400])
        return 1
    if sched["errors"]:
        for e in sched["errors"][:5]:
            print("ERROR: schedule leg: " + e)
        return max(st, 2)
    return st


def schedule_leg(tier):
    """Runs a subset of the C02 exploration jobs and keeps only what concerns C10 (sem:c10-projection)."""
    ref_exe = build.build_harness("C02", "serial-asan", ["harness/C02_sched.c"])
    r = subprocess.run([ref_exe, "--mode", "ref"], stdout=subprocess.PIPE, stderr=subprocess.PIPE, text=True, env=C02.c02env(), timeout=600)
    refs = {}
    for ln in r.stdout.split("\n"):
        if ln.startswith("R "):
            p = ln.split()
            refs[int(p[1])] = p[2]
    out = {"violations": [], "errors": [], "summary": {}}
    if r.returncode != 0 and ("Sanitizer" in r.stderr or "runtime error" in r.stderr):
        rep = r.stderr.split("\n")
        out["violations"].append({"sig": vp.crash_signature("exit", rep) + "@serial-build", "rec": None,
                                  "text": "the OpenMP-free build crashes on an input of the schedule leg: " + " / ".join(l.strip() for l in rep[:8])[:600]})
        return out
    exe = build.build_harness("C02", "vgomp-O2", ["harness/C02_sched.c"])
    if tier == "quick":
        jobs = [("vgomp-O2", k, 2, 0, 1, 0, 0, 1, 1) for k in (0, 2, 3, 4, 6)] + [("vgomp-O2", 11, 2, 0, 0, 1, 0, 1, 1)]
    else:
        jobs = [("vgomp-O2", k, N, 0, 2, 0, 0, 3, 4) for k in (0, 1, 2, 3, 4, 5, 6) for N in (2, 3)] + \
               [("vgomp-O2", k, 2, 0, 1, 1, 0, 1, 8) for k in (11, 12)]
    from concurrent.futures import ThreadPoolExecutor
    work = [(j, s) for j in jobs for s in range(j[8])]

    def one(a):
        j, s = a
        cmd = C02.job_cmd(exe, j, refs, s, (hash((j, s)) % vp.NCPU), 600)
        rr = subprocess.run(cmd, stdout=subprocess.PIPE, stderr=subprocess.PIPE, text=True, env=C02.c02env(), timeout=900)
        return j, s, rr

    execs = regroup = 0
    with ThreadPoolExecutor(vp.NCPU) as ex:
        for j, s, rr in ex.map(one, work):
            B, F, C, S = C02.parse_sched(rr.stdout)
            if rr.returncode != 0:
                out["errors"].append("explorer %s exited %d" % (j, rr.returncode))
            if B:
                execs += int(B[-1]["executions"])
                regroup += int(B[-1]["regroup"])
            for f in F:
                if f["sig"] == "sem:c10-projection":
                    f["rec"] = {"variant": j[0], "input": j[1], "threads": j[2], "nested": j[3], "policy": j[6], "yields": j[7],
                                "ref": refs[j[1]], "choices": f["choices"]}
                    out["violations"].append(f)
    out["summary"] = {"schedules_checked": execs, "regrouped_gapped_nodes_seen": regroup, "jobs": len(jobs)}
    return out


def replay(path):
    rec = json.load(open(path))
    if rec.get("extra") and "choices" in (rec.get("extra") or {}):
        return C02.replay(path)
    return enumcheck.replay_enum("C10", path, LEGS)
