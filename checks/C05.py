import enumcheck
LEGS = [{"name": "C05", "variant": "serial-asan", "sources": ["harness/C05_inputs.c"], "args": ["--batch", "1000"]},
        {"name": "C05cli", "variant": "serial-asan", "sources": ["harness/C05_cli.c"], "with_cli": True, "ld": ["-ldl"], "args": ["--batch", "200"]},
        {"name": "C05fmt", "variant": "serial-asan", "sources": ["harness/C05_fmt.c", "harness/C05_fmt_main.c"], "with_cli": True,
         "cflags": ["-I" + __import__("os").path.join(__import__("os").path.dirname(__import__("os").path.dirname(__import__("os").path.abspath(__file__))), "harness", "fmtinc")],
         "args": ["--batch", "200"]},
        {"name": "C05vg", "variant": "plain-g", "sources": ["harness/C05_valgrind.c"], "args": ["--batch", "300"],
         "wrapper": ["valgrind", "-q", "--error-exitcode=88", "--undef-value-errors=yes", "--track-origins=no", "--log-file=/dev/shm/vg-c05-%p.log"]}]
_run, _replay = enumcheck.simple("C05", LEGS,
    "(A) every string of <= 4 (5 thorough) tokens over 21 tokens (>, residue letters in both cases incl. X, J, U, gap symbols, blank, tab, LF, CR, "
    "the two bytes of a UTF-8 character, digit, *, and the keywords that steer format detection) written as an input file; (B) for one tiny valid "
    "file per readable format (FASTA, aligned FASTA, Clustal, MSF): the file itself, every truncation point, every line deleted / duplicated / "
    "swapped with its successor, every byte replaced by each of 16 structural characters (thorough: any of these followed by a truncation or line "
    "operation), and 10 oversized shapes (huge names, > 512 records, > 512 lines in one block, 200 000-column line, > 1024 lines); each pushed "
    "through read -> run -> write x3 -> free under ASan+UBSan; on the success path the allocator's live-byte count must return to its value before the case (growth on repetition = leak); success must come with a valid alignment of the "
    "sequences the reader reported. (C) leg C05cli: every option string of a grammar (--type 8 values incl. empty and garbage, --gpo 6, --gpe 3, --tgpe 3, -n 7, --format 5, input {nucleotide, protein, missing, directory, empty, single record}, output {file, missing directory, stdout}; quick: two sub-products, thorough: the full product) and every single injected fopen failure (3 formats x {one file, two files, two files + stdin}) and 6 command lines naming two good files and a sequence-free file (0 bytes / blank lines) as first, middle or last input through the CLI main() in a forked child: normal termination, exit 0 => valid alignment written, exit != 0 => diagnostic, valid request => exit 0, unreadable/unwritable => exit != 0. (C') leg C05fmt: the second command-line program kalignfmt (src/run_reformat.c) over --format 5 values x {aligned FASTA, MSF, Clustal, unaligned FASTA, missing, directory, empty, single record} x {none, --unalign, --changename, --clean, two pairs} x {file, missing directory, stdout} = 720 command lines in a forked child: normal termination, no sanitizer report, missing/unreadable/empty input, unknown format and unwritable output => exit != 0 with a diagnostic, aligned input => exit 0 and the rows of the input in the requested format. (D) leg C05vg: inside valgrind memcheck: the array API on all pairs/triples over {A,C} up to length 2 (equal lengths force the name tie-break), every token string of <= 3 tokens over 12 tokens as a file, and 8 shapes (2 x 520 columns with 1 and 4 threads, 101 sequences, protein with U/X/J/O, the three writers, aligned input); memcheck's error count is read after every case. non-trivial = inputs that were aligned successfully", "nontrivial_aligned_successfully",
    ["no independent notion of what a malformed file 'means' is imposed: the sequences the reader reports are the reference", "allocation failure is not injected"],
    level="fault_enumeration")


def _cleanup():
    import glob, os
    for f in glob.glob("/dev/shm/vg-c05-*.log"):
        try:
            os.unlink(f)
        except OSError:
            pass


def run(tier):
    try:
        return _run(tier)
    finally:
        _cleanup()


def replay(path):
    try:
        return _replay(path)
    finally:
        _cleanup()
