import enumcheck
LEGS = [{"name": "C05", "variant": "serial-asan", "sources": ["harness/C05_inputs.c"], "args": ["--batch", "1000"]}]
run, replay = enumcheck.simple("C05", LEGS,
    "(A) every string of <= 4 (5 thorough) tokens over 21 tokens (>, residue letters in both cases incl. X, J, U, gap symbols, blank, tab, LF, CR, "
    "the two bytes of a UTF-8 character, digit, *, and the keywords that steer format detection) written as an input file; (B) for one tiny valid "
    "file per readable format (FASTA, aligned FASTA, Clustal, MSF): the file itself, every truncation point, every line deleted / duplicated / "
    "swapped with its successor, every byte replaced by each of 16 structural characters (thorough: any of these followed by a truncation or line "
    "operation), and 10 oversized shapes (huge names, > 512 records, > 512 lines in one block, 200 000-column line, > 1024 lines); each pushed "
    "through read -> run -> write x3 -> free under ASan+UBSan; on the success path the allocator's live-byte count must return to its value before the case (growth on repetition = leak); success must come with a valid alignment of the "
    "sequences the reader reported. non-trivial = inputs that were aligned successfully", "nontrivial_aligned_successfully",
    ["no independent notion of what a malformed file 'means' is imposed: the sequences the reader reports are the reference", "allocation failure is not injected"],
    level="fault_enumeration")
