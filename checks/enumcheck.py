"""Generic driver for the bounded-exhaustive enumeration harnesses (harness/vh.h protocol)."""
import json, os, sys, time
import vp, build

COMMON_ASSUMPTIONS = [
    "bounded-exhaustive: every case of the stated finite space was executed on the real library; nothing is claimed beyond the bounds",
    "small-scope hypothesis: index/boundary defects of this code show up at small sizes or at the listed thresholds",
    "the oracle code under /verif/oracle and harness/kx.h is trusted (no kalign code is shared with it)",
]


def run_enum(prop, tier, legs, rule, nontrivial_counter, level="model_checking", assumptions=(), timeout=None,
             extra_coverage=None, min_nontrivial=2):
    """legs: list of dicts {name, variant, sources, args(optional), cflags, ld, leakcheck}"""
    t0 = time.time()
    results = []
    all_fail = []
    exes = {}
    for leg in legs:
        exe = build.build_harness(leg["name"], leg["variant"], leg["sources"], tuple(leg.get("cflags", ())),
                                  tuple(leg.get("ld", ())), with_cli=leg.get("with_cli", False))
        exes[leg["name"]] = exe
        args = ["--tier", tier] + list(leg.get("args", []))
        if leg.get("leakcheck"):
            args.append("--leakcheck")
        r = vp.run_shards(exe, args, timeout=timeout or (3600 if tier == "thorough" else 900), extra_env=leg.get("env"), wrapper=leg.get("wrapper"))
        for f in r.failures:
            f["leg"] = leg["name"]
            f["extra"] = {"leg": leg["name"], "tier": tier, "variant": leg["variant"]}
        results.append(r)
        all_fail += r.failures

    def confirm(case_id, _fails=all_fail):
        legs_of = [f["leg"] for f in _fails if f["id"] == case_id]
        sigs = []
        for leg in legs:
            if leg["name"] in legs_of:
                args = ["--tier", tier] + list(leg.get("args", []))
                if leg.get("leakcheck"):
                    args.append("--leakcheck")
                rr = vp.run_single(exes[leg["name"]], args, case_id, wrapper=leg.get("wrapper"))
                got = [f["sig"] for f in rr.failures]
                want = [f["sig"] for f in _fails if f["id"] == case_id and f["leg"] == leg["name"]]
                if not set(want) & set(got):
                    # not reproducible alone: the failure may depend on what the same worker process did before (state kept between
                    # calls).  Re-run the shard the case belongs to, exactly as before, up to this case: if the same case fails with
                    # the same signature again, the failure is deterministic given that history and is reported as such.
                    r2 = vp.run_one_shard(exes[leg["name"]], args, case_id % vp.NCPU, extra_env=leg.get("env"), wrapper=leg.get("wrapper"), upto=case_id)
                    again = [f["sig"] for f in r2.failures if f["id"] == case_id]
                    if set(want) & set(again):
                        got += again
                        for f in _fails:
                            if f["id"] == case_id and f["leg"] == leg["name"] and f["sig"] in again and "history of its worker" not in f["text"]:
                                f["text"] += "  [reproduces only after the history of its worker process (shard %d re-run up to this case): state is kept between calls]" % (case_id % vp.NCPU)
                sigs += got
        return sigs

    violations, knowns, flaky = vp.triage(prop, all_fail, confirm)
    counters = {}
    for r in results:
        for k, v in r.counters.items():
            counters[k] = counters.get(k, 0) + v
    samples = []
    for r in results:
        samples += r.samples
    samples = sorted(samples, key=len)[-8:] if len(samples) > 8 else samples
    cases = counters.get("cases", 0)
    coverage = {
        "states": max(cases, 0),
        "transitions": max(counters.get("library_calls", cases), 0),
        "traces_validated_against_impl": cases,
        "evaluations": max(cases, counters.get("library_calls", 0)),
        "distinct_nontrivial": counters.get(nontrivial_counter, 0),
        "rule": rule + " | states = case ids executed; transitions/evaluations = library runs (a case may run many); distinct_nontrivial counts the unit named in the rule",
        "samples": samples or ["(no sample emitted)"],
        "exhaustive": len([e for r in results for e in r.errors]) == 0 and counters.get("worker_deaths", 0) == len([f for f in all_fail if f.get("crash")]) and counters.get("shards_stopped_after_two_timeouts", 0) == 0,
        "space_size": counters.get("total_cases_in_space", 0),
        "skipped_by_premise": counters.get("skipped_by_premise", 0),
        "counters": counters,
        "legs": [l["name"] + ":" + l["variant"] for l in legs],
    }
    if extra_coverage:
        coverage.update(extra_coverage)
    st = vp.finish(prop, tier, t0, results, violations, knowns, flaky, coverage, list(assumptions) + COMMON_ASSUMPTIONS,
                   level=level)
    if st == 0 and coverage["distinct_nontrivial"] < min_nontrivial:
        print("ERROR: vacuous run: only %d non-trivial cases (%s)" % (coverage["distinct_nontrivial"], nontrivial_counter))
        st = 2
    print("%s %s: cases=%d nontrivial=%d skipped=%d violations=%d known=%d wall=%.1fs" % (
        prop, tier, cases, coverage["distinct_nontrivial"], coverage["skipped_by_premise"], len(violations), len(knowns),
        time.time() - t0))
    return st


def replay_enum(prop, path, legs):
    rec = json.load(open(path))
    extra = rec.get("extra") or {}
    tier = extra.get("tier", "quick")
    st = 0
    for leg in legs:
        if extra.get("leg") and leg["name"] != extra["leg"]:
            continue
        exe = build.build_harness(leg["name"], leg["variant"], leg["sources"], tuple(leg.get("cflags", ())),
                                  tuple(leg.get("ld", ())), with_cli=leg.get("with_cli", False))
        args = ["--tier", tier] + list(leg.get("args", []))
        if leg.get("leakcheck"):
            args.append("--leakcheck")
        r = vp.run_single(exe, args, rec["case_id"], wrapper=leg.get("wrapper"))
        for s in r.samples:
            print("case: " + s)
        for f in r.failures:
            print("FAILED sig=%s %s" % (f["sig"], f["text"][:600]))
            if f["sig"] == rec["sig"]:
                st = 1
    if st:
        print("VIOLATION property=%s replay=%s" % (prop, path))
    else:
        print("replay: the recorded violation did not reproduce on the current tree")
    return st


def simple(prop, legs, rule, counter, assumptions=(), **kw):
    def run(tier):
        return run_enum(prop, tier, legs, rule, counter, assumptions=list(assumptions), **kw)

    def replay(path):
        return replay_enum(prop, path, legs)
    return run, replay
