"""Conformance between the Promela model of the tasking rules + kalign's task protocol (models/omp_tasks.pml)
and the implementation-level scheduler (vgomp + explorer): for each guide-tree shape and thread count the
number of complete model paths and of distinct merge orders must equal the number of schedules and distinct
event orders the explorer finds with an unlimited bound (no hook yields, no reductions).  Spin also checks the
ordering assertion and absence of deadlock on the model without any bound."""
import os, re, shutil, subprocess, tempfile
import vp, build

SHAPES = {0: (14, "3 leaves, chain"), 1: (0, "4 leaves, balanced"), 2: (15, "4 leaves, caterpillar")}


def run(refs, threads=(1, 2, 3), shapes=(0, 1, 2), env=None):
    exe = build.build_harness("C02", "vgomp-O2", ["harness/C02_sched.c"])
    out = []
    errors = []
    d = tempfile.mkdtemp(prefix="spin-", dir=os.path.join(vp.VERIF, "build"))
    try:
        from concurrent.futures import ThreadPoolExecutor

        def one(cfg):
            sh, N = cfg
            o, e = [], []
            wd = os.path.join(d, "s%d_n%d" % (sh, N))
            os.makedirs(wd)
            r = subprocess.run(["spin", "-a", "-DNTHREADS=%d" % N, "-DSHAPE=%d" % sh, os.path.join(vp.VERIF, "models/omp_tasks.pml")],
                               cwd=wd, capture_output=True, text=True)
            if r.returncode or not os.path.exists(os.path.join(wd, "pan.c")):
                e.append("spin -a failed: " + (r.stdout + r.stderr)[-300:])
                return o, e
            r = subprocess.run(["gcc", "-O2", "-w", "-DNOREDUCE", "-DMEMLIM=8000", "-DVECTORSZ=2048", "-o", "pan", "pan.c"], cwd=wd, capture_output=True, text=True)
            if r.returncode:
                e.append("pan compile failed: " + r.stderr[-300:])
                return o, e
            r = subprocess.run(["./pan", "-m1000000", "-c0", "-e"], cwd=wd, capture_output=True, text=True, timeout=1800)
            paths = [l for l in r.stdout.split("\n") if l.startswith("PATH")]
            orders = set(l.split()[1] for l in paths if len(l.split()) > 1)
            m = re.search(r"errors: (\d+)", r.stdout)
            st = re.search(r"(\d+) states, stored", r.stdout)
            model_errors = int(m.group(1)) if m else -1
            k = SHAPES[sh][0]
            try:
                # "--deadline": the explorer stops by itself and reports complete=0 (the unchanged tree needs seconds; a tree whose
                # parallel regions have more scheduling points than the model knows - e.g. a dynamic loop schedule - does not finish)
                # own session: the explorer forks a supervised child; on a timeout the whole group is killed
                pr = subprocess.Popen([exe, "--mode", "explore", "--input", str(k), "--threads", str(N), "--nested", "0", "--bound", "99",
                                       "--onlybound", "1", "--yields", "0", "--lazy", "0", "--cost", "0", "--ref", refs[k], "--deadline", "240"],
                                      stdout=subprocess.PIPE, stderr=subprocess.PIPE, text=True, env=env, start_new_session=True)
                try:
                    so, se = pr.communicate(timeout=600)
                except subprocess.TimeoutExpired:
                    try:
                        os.killpg(pr.pid, 9)
                    except OSError:
                        pass
                    pr.communicate()
                    raise
                rr = subprocess.CompletedProcess(pr.args, pr.returncode, so, se)
            except subprocess.TimeoutExpired:
                e.append("conformance run of the implementation did not finish for %s with %d threads: the code has more scheduling points "
                         "than the Promela model describes (model and code have diverged)" % (SHAPES[sh][1], N))
                return o, e
            b = [l for l in rr.stdout.split("\n") if l.startswith("B ")]
            f = [l for l in rr.stdout.split("\n") if l.startswith("F ") or l.startswith("C ")]
            impl = dict(kv.split("=") for kv in b[-1][2:].split()) if b else {}
            rec = {"shape": SHAPES[sh][1], "threads": N, "model_paths": len(paths), "model_merge_orders": len(orders),
                   "model_states": int(st.group(1)) if st else 0, "model_errors": model_errors,
                   "impl_schedules": int(impl.get("executions", -1)), "impl_event_orders": int(impl.get("orders", -1)),
                   "impl_complete": impl.get("complete") == "1"}
            rec["agree"] = (rec["model_errors"] == 0 and rec["impl_complete"] and rec["model_paths"] == rec["impl_schedules"]
                            and rec["model_merge_orders"] == rec["impl_event_orders"] and not f)
            o.append(rec)
            if f:
                e.append("explorer reported a failure during the conformance run: " + f[0][:200])
            return o, e

        with ThreadPoolExecutor(6) as ex:
            for o, e in ex.map(one, [(sh, N) for sh in shapes for N in threads]):
                out += o
                errors += e
    finally:
        shutil.rmtree(d, ignore_errors=True)
    return out, errors
