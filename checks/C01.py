import enumcheck

LEGS = [{"name": "C01", "variant": "serial-O2", "sources": ["harness/C01_integrity.c"]},
        {"name": "C01t", "variant": "gomp", "sources": ["harness/C01_integrity.c"], "cflags": ["-DC01_THREADS=1"]}]
RULE = ("case = (tuple of k sequences of length 0..L over a 2-3 letter alphabet | large-shape set) x admissible type x "
        "gap-penalty preset x entry point/format {array API, msa+fasta, msa+msf, msa+clustal}; ids are mixed-radix, "
        "every id of the space is run; non-trivial = alignment produced contains at least one gap")


def run(tier):
    return enumcheck.run_enum("C01", tier, LEGS, RULE, "nontrivial_alignment_has_gap",
                              assumptions=["leg C01: n_threads=1 on the OpenMP-free build; leg C01t: the same space with 2, 3 or 8 threads on the real libgomp (one schedule each); all schedules are C02's space"])


def replay(path):
    return enumcheck.replay_enum("C01", path, LEGS)
