import enumcheck

LEGS = [{"name": "C01", "variant": "serial-O2", "sources": ["harness/C01_integrity.c"]}]
RULE = ("case = (tuple of k sequences of length 0..L over a 2-3 letter alphabet | large-shape set) x admissible type x "
        "gap-penalty preset x entry point/format {array API, msa+fasta, msa+msf, msa+clustal}; ids are mixed-radix, "
        "every id of the space is run; non-trivial = alignment produced contains at least one gap")


def run(tier):
    return enumcheck.run_enum("C01", tier, LEGS, RULE, "nontrivial_alignment_has_gap",
                              assumptions=["threads axis here is n_threads=1 on the OpenMP-free build; thread counts and schedules are C02's space"])


def replay(path):
    return enumcheck.replay_enum("C01", path, LEGS)
