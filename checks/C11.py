import enumcheck
SRC = ["harness/C11_bpm.c", "harness/bpm_w8.c"]
LEGS = [{"name": "C11", "variant": "serial-O2", "sources": SRC},
        {"name": "C11n", "variant": "noavx", "sources": SRC}]
run, replay = enumcheck.simple("C11", LEGS,
    "A: every binary text of length n <= N with every binary pattern of length m <= n (bpm_block at 64-bit width, bpm, bpm_256 and bpm_block "
    "re-instantiated from the same source with 8-bit words, where m = 9..N spans 2 blocks); C: the same over three symbols; D: around 13-symbol "
    "texts of lengths 63..3000 (every block boundary up to 3 blocks, and the 1024 cap) every substring of length n-2..n with every single "
    "substitution/insertion/deletion (position stride stated per tier); E: the same family around every binary text of length 14 (quick) / 18 "
    "(thorough) at 8-bit width (2-3 blocks). Two builds: AVX2 and NOHAVE_AVX2. A case is one text (x pattern length); library_calls counts the "
    "pairs. non-trivial = pairs whose distance is strictly between 0 and m", "nontrivial_distance_strictly_between",
    ["multi-block behaviour at 64-bit width is covered for the edit families only; arbitrary multi-block patterns are covered through the "
     "word-width-parametric source at 8-bit width", "UBSan shift-base is disabled for bpm_256's 1<<31 table fill (see engine/build.py)"])
