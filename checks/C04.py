import enumcheck
LEGS = [{"name": "C04", "variant": "serial-asan", "sources": ["harness/C04_presentation.c"], "with_cli": True}]
run, replay = enumcheck.simple("C04", LEGS,
    "case = base set (all pairs over {A,C} of length 1..3, all triples of length 1..2, four larger sets up to 12 records x 130 columns) x "
    "presentation from a finite grammar: FASTA wrapped at {1,2,3,59,60,61,none}; blank lines before/after every line; trailing-space, tab and "
    "leading-space padding; one gap run (3 symbols x 3 lengths x 3 places x same/alternating x ragged/aligned); two gap runs; >=95% gaps; "
    "independently written Clustal and MSF files with name padding {1,5,200}; 12 splits over 2-3 files of mixed formats; 4 command-line forms "
    "with standard input. Oracle: FASTA bytes == bytes for the bare one-file FASTA. non-trivial = reference alignment has a gap",
    "nontrivial_reference_has_gap",
    ["Clustal/MSF presentations are written by harness code, not by kalign", "the command-line forms run the CLI's own main() in a forked child with the given standard input"])
