import enumcheck
LEGS = [{"name": "C14", "variant": "serial-O2", "sources": ["harness/C14_spelling.c"]}]
run, replay = enumcheck.simple("C14", LEGS,
    "case = base set (tuple of k sequences over {A,C,T}/{A,C,G,T} or {L,K,B,U,Z,X}, bounded length) x type constant; inside each case ALL 2^residues "
    "case patterns and, for nucleotides, ALL 2^(#T) T/U patterns are run and compared with the base run; library_calls counts the runs; "
    "non-trivial = base alignment contains a gap", "nontrivial_base_has_gap",
    ["a base set whose type is rejected (type does not fit the detected kind) is skipped and counted"])
