import enumcheck
LEGS = [{"name": "C07", "variant": "serial-O2", "sources": ["harness/C07_optimum.c"]},
        {"name": "C07g", "variant": "gomp", "sources": ["harness/C07_optimum.c"], "cflags": ["-DC07_THREADS=4"]}]
run, replay = enumcheck.simple("C07", LEGS,
    "case = ordered pair (a,b) x configuration (5 type defaults + 6 user penalty triples with pairwise different magnitudes): all pairs over "
    "{A,C,G} up to length 4 (5 thorough), over {A,C} up to 6 (7), over {L,K,W} up to 3 (4); a planted family (3 flank pairs x every insertion of "
    "length 1..3 x 5 positions x 0-2 substitutions x 16 overhang combinations); a terminal-overhang family (shared core, overhangs of 5..60 foreign residues at either end of either sequence, 4 layouts); long pairs at 480..1100 columns x 6 edit scripts x 7 configurations on both sides of "
    "the 500-column switch (leg C07g: the same long pairs with 4 threads on the real libgomp, i.e. the parallel Hirschberg halves). An independent "
    "full-matrix three-state DP computes P = argmax S_lo and the best S_hi among all alignments != P; a case is certified if the margin exceeds "
    "delta = gpo + 1 + 0.004(|a|+|b|) + 1e-5|S|; certified cases are run with groups of 1..3 identical copies on either side (seq-seq, seq-profile, "
    "profile-profile) and the pairwise projection must equal P; uncertified cases are skipped and counted. non-trivial = certified cases whose P "
    "contains a gap", "nontrivial_certified_with_gap",
    ["S_lo/S_hi bracket every evaluation kalign performs (internal gap gpo..2gpo + (L-1)gpe, terminal gap L tgpe (+gpo)); validated by the absence of mismatches on the unchanged tree",
     "group cases only when neither sequence is contained in the other (independent containment test), so the guide tree joins the copies first"])
